// C38 — asynchronous getaddrinfo returns exactly the addresses the sources provide.
// One evdns_getaddrinfo per case (plus an optional second one for the same name to look at the cache) on a fresh
// evdns_base with one fake loopback nameserver, a generated hosts table (memfd) and the virtual clock.  The fake
// server answers the A and the AAAA question independently: addresses / NXDOMAIN / NODATA / silence, each after its
// own delay, optionally through a CNAME.  Oracle = reference resolver over the same inputs (below).
#include "dns_common.hh"
#include "resolvconf_ref.hh"
#include <sys/mman.h>
#include <netdb.h>
#include <algorithm>
#include <functional>
#include <map>
using namespace dnsw;
using rcref::Addr;

namespace {
const char K_NUMERIC_QUERIED[] = "C38/numeric-node-queried";
const char K_SERV_WRAP[] = "C38/servname-wraps";
const char K_CACHE_FAMILY[] = "C38/cache-ignores-family";
const char K_CACHE_DUP[] = "C38/cache-duplicates-addresses";
const char K_HOSTS_PORT[] = "C38/hosts-port-missing-on-second-entry";
const char K_CACHE_TTL[] = "C38/cache-outlives-ttl";
const char K_CACHE_CANON[] = "C38/cache-canonname-drops-addresses";
const int64_t SKEW_US = 3000000, TIMEOUT_US = 5000000;

bool g_have_http;

struct Ent { Addr a; int socktype = 0, protocol = 0; std::string canon; bool has_canon = false;
  bool operator<(const Ent &o) const { if (!(a == o.a)) return a < o.a; if (socktype != o.socktype) return socktype < o.socktype; return protocol < o.protocol; }
  bool operator==(const Ent &o) const { return a == o.a && socktype == o.socktype && protocol == o.protocol; } };
struct Gai { int calls = 0, err = -12345; std::vector<Ent> ents; int64_t at = -1; bool bad_shape = false; std::string shape; };
void gai_cb(int err, struct evutil_addrinfo *res, void *arg) {
  Gai *g = (Gai *)arg; g->calls++; g->err = err; g->at = sim_now_us();
  for (struct evutil_addrinfo *ai = res; ai; ai = ai->ai_next) {
    Ent e; e.a.family = ai->ai_family; e.socktype = ai->ai_socktype; e.protocol = ai->ai_protocol;
    if (!ai->ai_addr) { g->bad_shape = true; g->shape = "ai_addr NULL"; continue; }
    if (ai->ai_addr->sa_family != ai->ai_family) { g->bad_shape = true; g->shape = "ai_family differs from sa_family"; }
    if (ai->ai_family == AF_INET) { struct sockaddr_in *sin = (struct sockaddr_in *)ai->ai_addr; memcpy(e.a.a, &sin->sin_addr, 4); e.a.port = ntohs(sin->sin_port); if (ai->ai_addrlen != sizeof *sin) { g->bad_shape = true; g->shape = "ai_addrlen"; } }
    else if (ai->ai_family == AF_INET6) { struct sockaddr_in6 *s6 = (struct sockaddr_in6 *)ai->ai_addr; memcpy(e.a.a, &s6->sin6_addr, 16); e.a.port = ntohs(s6->sin6_port); if (ai->ai_addrlen != sizeof *s6) { g->bad_shape = true; g->shape = "ai_addrlen"; } }
    else { g->bad_shape = true; g->shape = "family"; }
    if (ai->ai_canonname) { e.has_canon = true; e.canon = ai->ai_canonname; }
    g->ents.push_back(e);
  }
  if (res) evutil_freeaddrinfo(res);
}

struct MemFile { int fd = -1; char path[64];
  explicit MemFile(const std::string &c) { fd = memfd_create("c38", MFD_CLOEXEC); CHECK(fd >= 0, "harness/setup", "memfd_create"); size_t off = 0; while (off < c.size()) { ssize_t r = write(fd, c.data() + off, c.size() - off); CHECK(r > 0, "harness/setup", "memfd write"); off += (size_t)r; } snprintf(path, sizeof path, "/proc/self/fd/%d", fd); }
  ~MemFile() { if (fd >= 0) close(fd); } };

Addr mk4(uint8_t a, uint8_t b, uint8_t c, uint8_t d) { Addr x; x.family = AF_INET; x.a[0] = a; x.a[1] = b; x.a[2] = c; x.a[3] = d; return x; }
Addr mk6(uint8_t last, uint8_t mid) { Addr x; x.family = AF_INET6; x.a[0] = 0x20; x.a[1] = 0x01; x.a[2] = 0x0d; x.a[3] = 0xb8; x.a[8] = mid; x.a[15] = last; return x; }

// what the fake server does with one question type
struct Plan { int kind = 0; /* 0 addresses 1 NXDOMAIN 2 NODATA 3 silence */ std::vector<Addr> addrs; uint32_t ttl = 60; int64_t delay_us = 0; bool cname = false; };
struct Pending { struct event *ev = nullptr; std::vector<uint8_t> pkt; struct sockaddr_in to; int64_t *arrived = nullptr; };
void send_cb(evutil_socket_t, short, void *arg) { Pending *p = (Pending *)arg; udp_send(0, p->to, p->pkt.data(), p->pkt.size()); if (p->arrived && *p->arrived < 0) *p->arrived = sim_now_us(); }

std::vector<Ent> expand(const std::vector<Addr> &addrs, int port, int socktype, int protocol) {
  // evutil documents: a zero socktype and protocol yields one TCP and one UDP entry per address; otherwise the missing one is inferred
  std::vector<Ent> out;
  for (auto a : addrs) { a.port = (uint16_t)port;
    if (!socktype && !protocol) { Ent e; e.a = a; e.socktype = SOCK_STREAM; e.protocol = IPPROTO_TCP; out.push_back(e); e.socktype = SOCK_DGRAM; e.protocol = IPPROTO_UDP; out.push_back(e); }
    else { Ent e; e.a = a; e.socktype = socktype ? socktype : (protocol == IPPROTO_UDP ? SOCK_DGRAM : SOCK_STREAM); e.protocol = protocol ? protocol : (socktype == SOCK_DGRAM ? IPPROTO_UDP : IPPROTO_TCP); out.push_back(e); } }
  return out;
}
std::string show(const std::vector<Ent> &v) { std::string s; for (auto &e : v) { s += e.a.str() + "/" + std::to_string(e.socktype) + "/" + std::to_string(e.protocol) + " "; } return s.empty() ? "(none)" : s; }
bool same_multiset(std::vector<Ent> a, std::vector<Ent> b) { std::sort(a.begin(), a.end()); std::sort(b.begin(), b.end()); return a == b; }
}  // namespace

extern "C" int LLVMFuzzerInitialize(int *, char ***) {
  common_init();
  g_have_http = getservbyname("http", "tcp") != nullptr && ntohs(getservbyname("http", "tcp")->s_port) == 80 && getservbyname("http", NULL) != nullptr;
  sim_reset(); World w; w.open(1); Gai g;
  struct evutil_addrinfo hints; memset(&hints, 0, sizeof hints); hints.ai_family = AF_INET; hints.ai_socktype = SOCK_STREAM;
  evdns_base_load_hosts(w.dns, NULL);
  evdns_getaddrinfo(w.dns, "localhost", "http", &hints, gai_cb, &g);
  hints.ai_flags = EVUTIL_AI_NUMERICHOST; evdns_getaddrinfo(w.dns, "127.0.0.1", "80", &hints, gai_cb, &g);
  hints.ai_flags = EVUTIL_AI_ADDRCONFIG; hints.ai_family = AF_UNSPEC; evdns_getaddrinfo(w.dns, "127.0.0.1", "80", &hints, gai_cb, &g);
  struct evdns_getaddrinfo_request *rq = evdns_getaddrinfo(w.dns, "warm.up", NULL, NULL, gai_cb, &g);
  if (rq) { evdns_getaddrinfo_cancel(rq); w.turn(); }
  w.close_dns(0); w.turn(); event_base_free(w.base); w.base = nullptr; servers_drain(); sim_reset();
  return 0;
}

extern "C" int LLVMFuzzerTestOneInput(const uint8_t *data, size_t size) {
  sim_reset();
  verif_case_begin("C38");
  Src s(data, size);
  bool no_cache = s.chance(1, 8);
  World w; w.open(1, no_cache ? EVDNS_BASE_NO_CACHE : 0);

  // ---- hosts table
  struct HostLine { const char *text; Addr a; const char *name; };
  static const HostLine HL[] = {{"10.1.1.1 hosty", mk4(10, 1, 1, 1), "hosty"}, {"2001:db8::5 hosty", mk6(5, 0), "hosty"}, {"10.1.1.2 both.example", mk4(10, 1, 1, 2), "both.example"},
    {"2001:db8::9 v6only.example", mk6(9, 0), "v6only.example"}, {"10.1.1.3 hosty", mk4(10, 1, 1, 3), "hosty"}, {"10.9.9.9 www.example.test", mk4(10, 9, 9, 9), "www.example.test"}};
  std::vector<const HostLine *> hosts; std::string hosts_text;
  int nh = s.below(4); for (int i = 0; i < nh; i++) { const HostLine *h = &HL[s.below(6)]; hosts.push_back(h); hosts_text += h->text; hosts_text += "\n"; }
  // file shape (derived from the hash of the choices so far, so that no extra input is consumed and old replays decode as before):
  // a comment and an empty line in front, and - one case in four - no newline behind the last entry (hosts(5) does not require one)
  if (nh) { unsigned shape = (unsigned)(s.h >> 13) & 15; if (shape & 4) hosts_text = "# generated\n\n" + hosts_text; if ((shape & 3) == 3) { hosts_text.pop_back(); verif_class("hosts_file_without_final_newline"); } }
  if (nh) { MemFile f(hosts_text); int r = evdns_base_load_hosts(w.dns, f.path); CHECK(r == 0, "harness/setup", "load_hosts=%d", r); }

  // ---- the request
  static const char *const NODES[] = {nullptr, "192.0.2.5", "2001:db8::5", "::1", "hosty", "HoStY", "both.example", "v6only.example", "www.example.test", "Other.TEST", "www.example.test", "a.b.example.test"};
  int ni = s.below(12); const char *node = NODES[ni];
  static const char *const SERVS[] = {nullptr, "80", "0", "65535", "http", "65536", "nosuchsvc", "4294967376", "8080", "-1"};
  int si = s.below(10); const char *serv = SERVS[si];
  if (si == 4 && !g_have_http) serv = "80";
  if (si == 7 && verif_known(K_SERV_WRAP)) { verif_known_skipped(K_SERV_WRAP); serv = "80"; }
  bool use_hints = s.below(8) != 0; struct evutil_addrinfo hints; memset(&hints, 0, sizeof hints);
  static const int FAMS[] = {AF_UNSPEC, AF_INET, AF_INET6}; int fam = AF_UNSPEC; int socktype = 0, protocol = 0, flags = 0;
  if (use_hints) {
    fam = FAMS[s.below(3)];
    switch (s.below(6)) { case 0: break; case 1: socktype = SOCK_STREAM; break; case 2: socktype = SOCK_DGRAM; break; case 3: protocol = IPPROTO_TCP; break; case 4: protocol = IPPROTO_UDP; break; case 5: socktype = SOCK_STREAM; protocol = IPPROTO_TCP; break; }
    if (s.chance(1, 4)) flags |= EVUTIL_AI_PASSIVE; if (s.chance(1, 3)) flags |= EVUTIL_AI_CANONNAME; if (s.chance(1, 8)) flags |= EVUTIL_AI_NUMERICHOST;
    if (s.chance(1, 8)) flags |= EVUTIL_AI_NUMERICSERV; if (s.chance(1, 6)) flags |= EVUTIL_AI_ADDRCONFIG;
    hints.ai_family = fam; hints.ai_socktype = socktype; hints.ai_protocol = protocol; hints.ai_flags = flags;
  }
  w.set_opt("initial-probe-timeout", "3600");   // no nameserver probe may be in flight when the base is freed (open finding of C34)
  if (node && serv && !socktype && !protocol && verif_known(K_HOSTS_PORT)) { bool in_hosts = false; for (auto h : hosts) if (eq_nocase(h->name, node)) in_hosts = true;
    if (in_hosts) { verif_known_skipped(K_HOSTS_PORT); serv = nullptr; } }
  // node classification
  Addr num; bool is_num4 = node && rcref::parse_ip(node, AF_INET, &num) == rcref::VALID; bool is_num6 = node && !is_num4 && rcref::parse_ip(node, AF_INET6, &num) == rcref::VALID;
  bool numeric = is_num4 || is_num6;
  if ((!node || numeric) && (flags & EVUTIL_AI_ADDRCONFIG)) { flags &= ~EVUTIL_AI_ADDRCONFIG; hints.ai_flags = flags; }   // what the machine's interfaces do to literals is not modelled
  bool fam_mismatch = (is_num4 && fam == AF_INET6) || (is_num6 && fam == AF_INET);
  if (numeric && fam_mismatch && !(flags & EVUTIL_AI_NUMERICHOST) && verif_known(K_NUMERIC_QUERIED)) { verif_known_skipped(K_NUMERIC_QUERIED); fam = AF_UNSPEC; hints.ai_family = fam; fam_mismatch = false; }
  // service -> port (reference)
  int port = 0; bool serv_bad = false;
  if (serv) { if (rcref::all_digits(serv) && strlen(serv) <= 5 && atoi(serv) <= 65535) port = atoi(serv);
    else if (!strcmp(serv, "http") && !(flags & EVUTIL_AI_NUMERICSERV)) {
      // named services come from the system's services database, for the protocol the hints imply
      int pr = protocol ? protocol : socktype == SOCK_DGRAM ? IPPROTO_UDP : socktype == SOCK_STREAM ? IPPROTO_TCP : 0;
      struct servent *se = getservbyname(serv, pr == IPPROTO_UDP ? "udp" : pr == IPPROTO_TCP ? "tcp" : NULL);
      if (se) port = ntohs(se->s_port); else serv_bad = true;
    } else serv_bad = true; }

  // fake-server plan per question type
  Plan plan[2];   // 0: A  1: AAAA
  for (int t = 0; t < 2; t++) { Plan &p = plan[t]; int k = s.below(8); p.kind = k <= 3 ? 0 : k == 4 ? 1 : k == 5 ? 2 : k == 6 ? 3 : 0;
    int n = 1 + s.below(3); for (int i = 0; i < n; i++) p.addrs.push_back(t == 0 ? mk4(198, 51, 100, (uint8_t)(1 + s.below(3))) : mk6((uint8_t)(1 + s.below(3)), 0x77));
    static const uint32_t TTLS[] = {60, 2, 10, 300}; p.ttl = TTLS[s.below(4)];
    static const int64_t DELAYS[] = {0, 0, 1000000, 2900000, 3100000, 7000000, 100}; p.delay_us = DELAYS[s.below(7)];
    p.cname = s.chance(1, 3); }
  if (plan[0].ttl != plan[1].ttl && verif_known(K_CACHE_TTL)) { verif_known_skipped(K_CACHE_TTL); plan[1].ttl = plan[0].ttl; }
  bool plan_cname = plan[0].cname; plan[1].cname = plan_cname;    // one zone: both types see the same CNAME

  TR("hosts: %s", esc(hosts_text).c_str());
  TR("getaddrinfo(node=%s, serv=%s, hints=%s family=%d socktype=%d protocol=%d flags=0x%x) cache=%s", node ? node : "NULL", serv ? serv : "NULL", use_hints ? "yes" : "NULL", fam, socktype, protocol, flags, no_cache ? "off" : "on");
  for (int t = 0; t < 2; t++) TR("  plan %s: kind=%d n=%zu ttl=%u delay=%lldus cname=%d", t ? "AAAA" : "A", plan[t].kind, plan[t].addrs.size(), plan[t].ttl, (long long)plan[t].delay_us, plan[t].cname);

  Gai g; int64_t t0 = sim_now_us();
  struct evdns_getaddrinfo_request *rq = evdns_getaddrinfo(w.dns, node, serv, use_hints ? &hints : NULL, gai_cb, &g);
  bool sync = g.calls > 0;
  TR("  -> %s, callback calls=%d err=%d", rq ? "pending" : "NULL", g.calls, g.err);
  CHECK(!(rq && sync), "C38/pending-and-called", "evdns_getaddrinfo returned a request handle although the callback already ran");
  CHECK(rq || sync, "C38/no-callback", "evdns_getaddrinfo returned NULL without calling the callback");

  // ---- serve DNS
  std::vector<Pending *> pend; int queries[2] = {0, 0}; int64_t arrived[2] = {-1, -1}; int64_t first_query_at[2] = {-1, -1}; int other_queries = 0; std::string other_name;
  // phase 3 (below) lets further lookups of the same name reach the nameserver; the n-th question of a type is then answered from rplan[n]
  Plan rplan[2][2]; int n_re = 0; int re_seen[2] = {0, 0}; bool phase3 = false;
  std::map<Addr, uint32_t> sent_ttl;        // per address (port 0): the largest TTL any reply built so far carried for it
  auto serve = [&](const std::function<bool()> &done, int max_steps) {
    for (int step = 0; step < max_steps && !done(); step++) {
      w.turn(); Datagram d; bool any = false;
      while (udp_recv(0, &d)) {
        any = true; Query q = decode_query_strict(d.data.data(), d.data.size());
        CHECK(q.ok, "C38/malformed-query", "not a well-formed query: %s", q.why);
        std::string qn = join(q.name); int t = q.type == T_A ? 0 : q.type == T_AAAA ? 1 : -1;
        TR("    query \"%s\" type=%u t=+%lldus", esc(qn, 60).c_str(), q.type, (long long)(sim_now_us() - t0));
        if (t < 0 || !node || !eq_nocase(qn, node)) { other_queries++; other_name = qn; continue; }
        queries[t]++; if (first_query_at[t] < 0) first_query_at[t] = sim_now_us();
        Plan &p = phase3 ? rplan[std::min(re_seen[t], n_re - 1)][t] : plan[t]; if (phase3) re_seen[t]++;
        if (p.kind == 3) continue;
        if (p.kind == 0) for (auto a : p.addrs) { a.port = 0; uint32_t &m = sent_ttl[a]; m = std::max(m, p.ttl); }
        Builder b;
        if (p.kind == 0) {
          int an = (int)p.addrs.size() + (p.cname ? 1 : 0);
          b = reply_header_echo(d.data, F_QR | F_RD | F_RA, (uint16_t)an);
          Labels canon{"canon", "example", "test"};
          if (p.cname) { b.ptr(12); b.rr_fixed(T_CNAME, C_IN, p.ttl, (uint16_t)wire_len(canon)); b.name(canon); }
          for (auto &a : p.addrs) { if (p.cname) b.name(canon); else b.ptr(12); b.rr_fixed(t ? T_AAAA : T_A, C_IN, p.ttl, t ? 16 : 4); b.raw(a.a, t ? 16 : 4); }
        } else b = reply_header_echo(d.data, (uint16_t)(F_QR | F_RD | F_RA | (p.kind == 1 ? 3 : 0)), 0);
        Pending *pp = new Pending; pp->pkt = b.b; pp->to = d.from; pp->arrived = &arrived[t];
        pp->ev = event_new(w.base, -1, 0, send_cb, pp); struct timeval tv; tv.tv_sec = p.delay_us / 1000000; tv.tv_usec = p.delay_us % 1000000; event_add(pp->ev, &tv); pend.push_back(pp);
      }
      if (done()) break;
      if (!any) { w.turn(); if (done()) break; if (!w.advance()) break; }
    }
    w.turn();
  };
  if (rq) serve([&] { return g.calls > 0; }, 200);
  CHECK(g.calls == 1, "C38/callback-count", "callback ran %d times (A queries %d, AAAA queries %d)", g.calls, queries[0], queries[1]);
  CHECK(!g.bad_shape, "C38/addrinfo-shape", "malformed addrinfo entry: %s", g.shape.c_str());
  CHECK(g.err != 0 || !g.ents.empty(), "C38/success-without-addresses", "result 0 with an empty list");
  CHECK(g.err == 0 || g.ents.empty(), "C38/error-with-addresses", "error %d with a non-empty list", g.err);
  int total_q = queries[0] + queries[1] + other_queries;

  // ---- reference
  bool interesting = false; bool dns_path = false; std::vector<Ent> first_result = g.ents; int64_t cache_written_at = -1;
  bool numhost_flag = (flags & EVUTIL_AI_NUMERICHOST) != 0;
  if (!node && !serv) {
    CHECK(sync && g.err != 0 && total_q == 0, "C38/null-null", "NULL node and NULL service must fail at once without a query (err=%d, queries=%d)", g.err, total_q);
  } else if (numhost_flag) {
    // answered by the system resolver code path: only "no query", and for a numeric node the address itself
    CHECK(sync && total_q == 0, K_NUMERIC_QUERIED, "AI_NUMERICHOST: %s (queries on the wire: %d)", sync ? "answered at once" : "went to DNS", total_q);
    if (numeric && !fam_mismatch && !serv_bad && !(serv && !strcmp(serv, "http"))) {
      CHECK(g.err == 0, "C38/numeric-result", "AI_NUMERICHOST with numeric node \"%s\" failed: %d", node, g.err);
      for (auto &e : g.ents) { Addr want = num; want.port = (uint16_t)port; CHECK(e.a == want, "C38/numeric-result", "numeric node \"%s\" port %d resolved to %s", node, port, e.a.str().c_str()); }
    } else if (node && !numeric) CHECK(g.err != 0, "C38/numerichost-resolved-name", "AI_NUMERICHOST with the name \"%s\" succeeded", node);
    verif_class("numerichost_flag");
  } else if (serv_bad) {
    bool wrap = serv && !strcmp(serv, "4294967376");
    CHECK(sync && g.err != 0 && total_q == 0, wrap ? K_SERV_WRAP : "C38/bad-service", "service \"%s\"%s is not a port number or known service, yet the call %s (err=%d, first port %d)", serv, (flags & EVUTIL_AI_NUMERICSERV) ? " (AI_NUMERICSERV)" : "", sync ? "returned" : "went to DNS", g.err, g.ents.empty() ? -1 : g.ents[0].a.port);
    verif_class("bad_service");
  } else if (!node) {
    std::vector<Addr> want; bool passive = flags & EVUTIL_AI_PASSIVE;
    if (fam != AF_INET6) want.push_back(passive ? mk4(0, 0, 0, 0) : mk4(127, 0, 0, 1));
    if (fam != AF_INET) { Addr a; a.family = AF_INET6; if (!passive) a.a[15] = 1; want.push_back(a); }
    CHECK(sync && total_q == 0, K_NUMERIC_QUERIED, "NULL node: %s, %d queries", sync ? "answered at once" : "went to DNS", total_q);
    std::vector<Ent> exp = expand(want, port, socktype, protocol);
    CHECK(g.err == 0 && same_multiset(g.ents, exp), "C38/null-node-result", "NULL node (passive=%d family=%d): got err=%d %s, expected %s", passive, fam, g.err, show(g.ents).c_str(), show(exp).c_str());
    interesting = true; verif_class("null_node");
  } else if (numeric) {
    CHECK(sync && total_q == 0, K_NUMERIC_QUERIED, "numeric node \"%s\" with family hint %d: %s; queries on the wire: %d (\"%s\")", node, fam, sync ? "answered at once" : "handed to the resolver", total_q, esc(other_name, 40).c_str());
    if (!fam_mismatch) {
      std::vector<Ent> exp = expand(std::vector<Addr>{num}, port, socktype, protocol);
      CHECK(g.err == 0 && same_multiset(g.ents, exp), "C38/numeric-result", "numeric node \"%s\": got err=%d %s, expected %s", node, g.err, show(g.ents).c_str(), show(exp).c_str());
    } else CHECK(g.err != 0, "C38/numeric-result", "numeric node \"%s\" with the other family hint %d succeeded: %s", node, fam, show(g.ents).c_str());
    interesting = true; verif_class("numeric_node");
  } else {
    // hosts first
    std::vector<Addr> hv; bool other_fam = false;
    for (auto h : hosts) if (eq_nocase(h->name, node)) { if (fam != AF_UNSPEC && h->a.family != fam) other_fam = true; else hv.push_back(h->a); }
    // AI_ADDRCONFIG may narrow an unspecified family to the families the machine has: judged by the questions actually asked
    if (!hv.empty()) {
      CHECK(sync && total_q == 0, "C38/hosts-not-preferred", "\"%s\" is in the hosts table but %s (%d queries)", node, sync ? "" : "the resolver was asked", total_q);
      bool addrconfig_unspec = (flags & EVUTIL_AI_ADDRCONFIG) && fam == AF_UNSPEC;
      std::vector<Ent> exp = expand(hv, port, socktype, protocol);
      bool ok = g.err == 0 && same_multiset(g.ents, exp);
      if (!ok && addrconfig_unspec) for (int f : {AF_INET, AF_INET6}) { std::vector<Addr> sub; for (auto &a : hv) if (a.family == f) sub.push_back(a); if (!sub.empty() && g.err == 0 && same_multiset(g.ents, expand(sub, port, socktype, protocol))) ok = true; if (sub.empty() && g.err != 0) ok = true; }
      bool port_only = false;
      if (!ok && g.err == 0 && !socktype && !protocol && port) { std::vector<Ent> fixed = g.ents; for (auto &e : fixed) if (e.socktype == SOCK_DGRAM && e.a.port == 0) e.a.port = (uint16_t)port; port_only = same_multiset(fixed, exp); }
      CHECK(ok, port_only ? K_HOSTS_PORT : "C38/hosts-result", "\"%s\" from hosts: got err=%d %s, expected %s", node, g.err, show(g.ents).c_str(), show(exp).c_str());
      interesting = true; verif_class("hosts_node");
    } else if (other_fam) {
      // only entries of the other family: evdns answers EAI_ADDRFAMILY at once (code-derived corner); a DNS lookup would be fine too
      CHECK(g.err != 0 || !sync, "C38/hosts-result", "\"%s\" has no hosts entry of family %d but succeeded at once: %s", node, fam, show(g.ents).c_str());
      verif_class("hosts_other_family");
    } else {
      dns_path = true;
      CHECK(!sync, "C38/name-answered-without-source", "\"%s\" is neither numeric nor in hosts nor cached, but the callback ran at once (err=%d %s)", node, g.err, show(g.ents).c_str());
      CHECK(other_queries == 0, "C38/unexpected-question", "a question for \"%s\" was asked", esc(other_name, 60).c_str());
      bool asked[2] = {queries[0] > 0, queries[1] > 0};
      bool addrconfig_unspec = (flags & EVUTIL_AI_ADDRCONFIG) && fam == AF_UNSPEC;
      if (fam == AF_INET) CHECK(asked[0] && !asked[1], "C38/questions-vs-family", "family INET: A asked %d, AAAA asked %d", queries[0], queries[1]);
      else if (fam == AF_INET6) CHECK(!asked[0] && asked[1], "C38/questions-vs-family", "family INET6: A asked %d, AAAA asked %d", queries[0], queries[1]);
      else if (!addrconfig_unspec) CHECK(asked[0] && asked[1], "C38/questions-vs-family", "family UNSPEC: A asked %d, AAAA asked %d", queries[0], queries[1]);
      else CHECK(asked[0] || asked[1], "C38/questions-vs-family", "no question asked");
      // events: when does each asked type produce its outcome (relative to t0)?
      struct Evt { int t; int64_t at; bool data; }; std::vector<Evt> ev;
      for (int t = 0; t < 2; t++) if (asked[t]) { Evt e; e.t = t; e.data = plan[t].kind == 0; e.at = plan[t].kind == 3 ? 3 * TIMEOUT_US : plan[t].delay_us; ev.push_back(e); }
      std::sort(ev.begin(), ev.end(), [](const Evt &a, const Evt &b) { return a.at < b.at; });
      int64_t cb_at; std::vector<Addr> want; bool both_in = true;
      if (ev.size() == 1) { cb_at = ev[0].at; if (ev[0].data) want = plan[ev[0].t].addrs; }
      else { bool second_in = ev[1].at <= ev[0].at + SKEW_US; both_in = second_in; cb_at = second_in ? ev[1].at : ev[0].at + SKEW_US;
        for (int i = 0; i < (second_in ? 2 : 1); i++) if (ev[i].data) want.insert(want.end(), plan[ev[i].t].addrs.begin(), plan[ev[i].t].addrs.end()); }
      std::vector<Ent> exp = expand(want, port, socktype, protocol);
      TR("  reference: callback at +%lldus with %s", (long long)cb_at, show(exp).c_str());
      if (want.empty()) CHECK(g.err != 0, "C38/invented-addresses", "no address was provided in time but the result is %s", show(g.ents).c_str());
      else {
        CHECK(g.err == 0, "C38/addresses-lost", "\"%s\": err=%d although the nameserver provided %s in time", node, g.err, show(exp).c_str());
        CHECK(same_multiset(g.ents, exp), "C38/dns-result", "\"%s\" family=%d port=%d socktype=%d protocol=%d: got %s, expected %s", node, fam, port, socktype, protocol, show(g.ents).c_str(), show(exp).c_str());
        // canonical name: reported on the first entry when requested and the answer came through a CNAME
        if ((flags & EVUTIL_AI_CANONNAME) && plan_cname) CHECK(g.ents[0].has_canon && eq_nocase(g.ents[0].canon, "canon.example.test"), "C38/canonname", "AI_CANONNAME and a CNAME to canon.example.test, but ai_canonname is %s", g.ents[0].has_canon ? esc(g.ents[0].canon).c_str() : "NULL");
        if (!(flags & EVUTIL_AI_CANONNAME)) for (auto &e : g.ents) CHECK(!e.has_canon, "C38/canonname", "ai_canonname set without AI_CANONNAME");
        cache_written_at = g.at;
      }
      CHECK(llabs((g.at - t0) - cb_at) <= 2000, "C38/callback-time", "callback at +%lldus, reference +%lldus (A: kind %d delay %lld; AAAA: kind %d delay %lld)", (long long)(g.at - t0), (long long)cb_at, plan[0].kind, (long long)plan[0].delay_us, plan[1].kind, (long long)plan[1].delay_us);
      interesting = true; verif_class("dns_node"); if (ev.size() == 2) verif_class(both_in ? "dns_both_in_time" : "dns_second_late"); if (want.empty()) verif_class("dns_failed");
      if (plan_cname && (flags & EVUTIL_AI_CANONNAME)) verif_class("canonname");
    }
  }

  // ---- second lookup of the same name: the cache
  bool did_second = false;
  bool first_indecisive = !socktype && !protocol;    // the first result listed every address once per socket type
  bool want_second = dns_path && g.err == 0 && !no_cache && s.chance(3, 4);
  if (want_second && first_indecisive && verif_known(K_CACHE_DUP)) { verif_known_skipped(K_CACHE_DUP); want_second = false; }
  if (want_second) {
    // let the late reply (if any) and the leftovers of the first lookup finish
    for (int i = 0; i < 6; i++) w.turn();
    bool asked0[2] = {queries[0] > 0, queries[1] > 0};
    uint32_t ttl_of[2] = {plan[0].ttl, plan[1].ttl}; uint32_t tmin = 0xffffffff, tmax = 0; for (int t = 0; t < 2; t++) if (asked0[t] && plan[t].kind == 0) { tmin = std::min(tmin, ttl_of[t]); tmax = std::max(tmax, ttl_of[t]); }
    int64_t waits[] = {0, (int64_t)tmin * 1000000 - 1500000, (int64_t)tmin * 1000000 + 1500000, (int64_t)tmax * 1000000 + 1500000, (int64_t)tmax * 1000000 - 1500000};
    int64_t wait_us = waits[s.below(5)]; if (wait_us < 0) wait_us = 0;
    // virtual time passes through a harness timer on the same base
    if (wait_us > 0) { struct timeval tv; tv.tv_sec = wait_us / 1000000; tv.tv_usec = wait_us % 1000000; int64_t target = sim_now_us() + wait_us; event_base_once(w.base, -1, EV_TIMEOUT, [](evutil_socket_t, short, void *) {}, nullptr, &tv);
      for (int i = 0; i < 400 && sim_now_us() < target; i++) { Datagram d; while (udp_recv(0, &d)) {} if (!w.advance()) break; } w.turn(); }
    { Datagram d; while (udp_recv(0, &d)) {} }
    int fam2 = FAMS[s.below(3)]; struct evutil_addrinfo h2; memset(&h2, 0, sizeof h2); h2.ai_family = fam2; h2.ai_socktype = SOCK_STREAM; int port2 = s.flag() ? 443 : 0;
    if (verif_known(K_CACHE_FAMILY) && ((fam2 != AF_INET6 && !asked0[0]) || (fam2 != AF_INET && !asked0[1]))) { verif_known_skipped(K_CACHE_FAMILY); fam2 = (asked0[0] && asked0[1]) ? AF_UNSPEC : asked0[0] ? AF_INET : AF_INET6; h2.ai_family = fam2; }
    Gai g2; int64_t now = sim_now_us(); int64_t age = now - cache_written_at;
    struct evdns_getaddrinfo_request *rq2 = evdns_getaddrinfo(w.dns, node, port2 ? "443" : NULL, &h2, gai_cb, &g2);
    TR("second lookup family=%d port=%d after %lldus (cache age %lldus): %s calls=%d err=%d %s", fam2, port2, (long long)wait_us, (long long)age, rq2 ? "pending" : "NULL", g2.calls, g2.err, show(g2.ents).c_str());
    did_second = true;
    if (g2.calls) {
      // answered from the cache: must be permitted and equal the originals
      bool need[2] = {fam2 != AF_INET6, fam2 != AF_INET};
      for (int t = 0; t < 2; t++) if (need[t] && !asked0[t]) VERIF_FAIL(K_CACHE_FAMILY, "the first lookup (family %d) never asked for %s records, yet a lookup with family %d was answered from the cache at once (err=%d %s)", fam, t ? "AAAA" : "A", fam2, g2.err, show(g2.ents).c_str());
      if (g2.err == 0) {
        std::vector<Ent> exp; for (auto e : first_result) { if (fam2 != AF_UNSPEC && e.a.family != fam2) continue; e.a.port = (uint16_t)port2; e.socktype = SOCK_STREAM; e.protocol = IPPROTO_TCP; bool dup = false; for (auto &x : exp) if (x == e) dup = true; if (!dup || true) exp.push_back(e); }
        // the first result may hold each address once per socktype: reduce to distinct (address) occurrences
        { std::vector<Ent> red; std::vector<Ent> src = first_result; int per = (!socktype && !protocol) ? 2 : 1; std::sort(src.begin(), src.end());
          for (size_t i = 0; i < src.size(); i += per) { Ent e = src[i]; if (fam2 != AF_UNSPEC && e.a.family != fam2) continue; e.a.port = (uint16_t)port2; e.socktype = SOCK_STREAM; e.protocol = IPPROTO_TCP; red.push_back(e); } exp = red; }
        for (auto &e : g2.ents) { int t = e.a.family == AF_INET6; CHECK(age <= (int64_t)ttl_of[t] * 1000000 + 1000000, K_CACHE_TTL, "%s record %s with TTL %us returned from the cache %lldus after it was cached", t ? "AAAA" : "A", e.a.str().c_str(), ttl_of[t], (long long)age); }
        CHECK(same_multiset(g2.ents, exp), first_indecisive ? K_CACHE_DUP : "C38/cache-differs", "cached answer %s differs from the original %s (family %d)", show(g2.ents).c_str(), show(exp).c_str(), fam2);
        verif_class("cache_hit");
      }
    } else verif_class("cache_miss");
    if (rq2) { evdns_getaddrinfo_cancel(rq2); w.turn(); CHECK(g2.calls == 1, "C38/callback-count", "second lookup: callback ran %d times after cancel", g2.calls); }
  }
  // ---- phase 3 (every choice drawn after all earlier ones): the entry of an already-cached name is REWRITTEN - one or two further
  // lookups of the name are started back to back (so two can be in flight together), with AI_CANONNAME (an entry without canonical name
  // does not satisfy it) or after the entry's expiry, and are answered with their own addresses / TTLs / delays - and then the name is
  // looked up once more at an age chosen around the new TTLs.  Oracle for every lookup answered at once: cache clauses (a)-(c) against
  // ALL completed lookups of the case: each address only within (completion of a lookup that delivered it + the largest TTL the
  // nameserver ever gave that address), and the list equals what one completed lookup delivered.
  bool did_third = false;
  bool want_third = dns_path && g.err == 0 && !no_cache && s.below(2) == 1;
  if (want_third && first_indecisive && verif_known(K_CACHE_DUP)) { verif_known_skipped(K_CACHE_DUP); want_third = false; }
  if (want_third) {
    did_third = true;
    for (int i = 0; i < 6; i++) w.turn();
    bool asked0[2] = {queries[0] > 0, queries[1] > 0}; bool asked_ever[2] = {asked0[0], asked0[1]};
    std::vector<std::vector<Ent>> originals; std::map<Addr, int64_t> fresh_until;
    bool canon_on_some = false;   // a delivered answer of several entries carried the canonical name on some of them only (evutil convention: on the first)
    auto note = [&](const Gai &gx, int per) { std::vector<Ent> src = gx.ents, red; std::sort(src.begin(), src.end());
      { bool with = false, without = false; for (auto &e : gx.ents) (e.has_canon ? with : without) = true; if (with && without) canon_on_some = true; }
      for (size_t i = 0; i < src.size(); i += per) { Ent e = src[i]; e.a.port = 0; e.socktype = SOCK_STREAM; e.protocol = IPPROTO_TCP; e.has_canon = false; e.canon.clear(); red.push_back(e);
        int64_t &f = fresh_until[e.a]; f = std::max(f, gx.at + (int64_t)sent_ttl[e.a] * 1000000); }
      originals.push_back(red); };
    note(g, first_indecisive ? 2 : 1);
    auto judge = [&](const Gai &gx, int famx, int portx, bool canonx, const char *what) {
      int64_t now = sim_now_us(); bool need[2] = {famx != AF_INET6, famx != AF_INET};
      for (int t = 0; t < 2; t++) if (need[t] && !asked_ever[t]) VERIF_FAIL(K_CACHE_FAMILY, "%s: no lookup ever asked for %s records, yet a lookup with family %d was answered from the cache at once (err=%d %s)", what, t ? "AAAA" : "A", famx, gx.err, show(gx.ents).c_str());
      if (gx.err != 0) return;
      for (auto &e : gx.ents) { Addr k = e.a; k.port = 0; auto it = fresh_until.find(k);
        CHECK(it != fresh_until.end(), "C38/cache-differs", "%s: the cache returned %s, which no completed lookup had delivered", what, e.a.str().c_str());
        CHECK(now <= it->second + 1000000, K_CACHE_TTL, "%s: %s returned from the cache %lldus after the completion of the last lookup that delivered it, although the largest TTL the nameserver ever gave it is %us", what, e.a.str().c_str(), (long long)(now - (it->second - (int64_t)sent_ttl[k] * 1000000)), sent_ttl[k]); }
      bool match = false; std::string all;
      for (auto &o : originals) { std::vector<Ent> exp; for (auto e : o) { if (famx != AF_UNSPEC && e.a.family != famx) continue; e.a.port = (uint16_t)portx; exp.push_back(e); } if (same_multiset(gx.ents, exp)) match = true; all += "{" + show(exp) + "} "; }
      bool canon_subset = false;   // open finding: with AI_CANONNAME only the cached entries that carry the canonical name themselves are returned
      if (!match && canonx && canon_on_some) for (auto &o : originals) { std::vector<Ent> rest = o; bool sub = true; for (auto e : gx.ents) { e.a.port = 0; auto it = std::find(rest.begin(), rest.end(), e); if (it == rest.end()) { sub = false; break; } rest.erase(it); } if (sub) canon_subset = true; }
      CHECK(match, canon_subset ? K_CACHE_CANON : "C38/cache-differs", "%s: cached answer %s equals none of the answers delivered before (family %d): %s", what, show(gx.ents).c_str(), famx, all.c_str());
    };
    auto pass_time = [&](int64_t wait_us) { if (wait_us <= 0) return; struct timeval tv; tv.tv_sec = wait_us / 1000000; tv.tv_usec = wait_us % 1000000; int64_t target = sim_now_us() + wait_us;
      event_base_once(w.base, -1, EV_TIMEOUT, [](evutil_socket_t, short, void *) {}, nullptr, &tv);
      for (int i = 0; i < 400 && sim_now_us() < target; i++) { Datagram d; while (udp_recv(0, &d)) {} if (!w.advance()) break; } w.turn(); };
    uint32_t tmax1 = 0; for (int t = 0; t < 2; t++) if (asked0[t] && plan[t].kind == 0) tmax1 = std::max(tmax1, plan[t].ttl);
    // choices
    int famr = FAMS[s.below(3)]; int fam_first = (asked0[0] && asked0[1]) ? AF_UNSPEC : asked0[0] ? AF_INET : AF_INET6;
    if (verif_known(K_CACHE_FAMILY) && famr != fam_first) { verif_known_skipped(K_CACHE_FAMILY); famr = fam_first; }
    n_re = 1 + (int)s.below(2); bool re_canon[2] = {false, false};
    static const uint32_t TTLS3[] = {2, 60, 10, 300}; static const int64_t DELAYS3[] = {0, 1000000, 100, 2900000, 500000};
    for (int r = 0; r < n_re; r++) { re_canon[r] = s.chance(1, 2); bool cn = s.chance(1, 3);
      for (int t = 0; t < 2; t++) { Plan &p = rplan[r][t]; int k = (int)s.below(8); p.kind = k == 6 ? 1 : k == 7 ? 2 : 0;
        int n = 1 + (int)s.below(3); for (int i = 0; i < n; i++) p.addrs.push_back(t == 0 ? mk4(198, 51, 100, (uint8_t)(1 + s.below(5))) : mk6((uint8_t)(1 + s.below(5)), 0x77));
        p.ttl = TTLS3[s.below(4)]; p.delay_us = DELAYS3[s.below(5)]; p.cname = cn; } }
    int64_t pre_us = s.below(3) == 2 ? (int64_t)tmax1 * 1000000 + 1500000 : 0;
    bool needr[2] = {famr != AF_INET6, famr != AF_INET};
    uint32_t rmin = 0xffffffff, rmax = 0; for (int r = 0; r < n_re; r++) for (int t = 0; t < 2; t++) if (needr[t] && rplan[r][t].kind == 0) { rmin = std::min(rmin, rplan[r][t].ttl); rmax = std::max(rmax, rplan[r][t].ttl); }
    if (!rmax) { rmin = 2; rmax = tmax1; }
    int64_t waits3[] = {(int64_t)rmin * 1000000 + 1500000, 0, (int64_t)rmin * 1000000 - 1500000, (int64_t)rmax * 1000000 + 1500000, (int64_t)rmax * 1000000 - 1500000, 3500000};
    int64_t wait3 = waits3[s.below(6)]; if (wait3 < 0) wait3 = 0;
    int faml = FAMS[s.below(3)]; bool lcanon = s.chance(1, 4); int portl = s.flag() ? 443 : 0;
    if (verif_known(K_CACHE_FAMILY) && faml != famr) { verif_known_skipped(K_CACHE_FAMILY); faml = famr; }
    for (int r = 0; r < n_re; r++) for (int t = 0; t < 2; t++) TR("  rewrite lookup %d plan %s: kind=%d n=%zu ttl=%u delay=%lldus cname=%d", r, t ? "AAAA" : "A", rplan[r][t].kind, rplan[r][t].addrs.size(), rplan[r][t].ttl, (long long)rplan[r][t].delay_us, rplan[r][t].cname);
    // the rewriting lookups
    pass_time(pre_us); { Datagram d; while (udp_recv(0, &d)) {} }
    if (canon_on_some && verif_known(K_CACHE_CANON)) for (int r = 0; r < n_re; r++) if (re_canon[r]) { verif_known_skipped(K_CACHE_CANON); re_canon[r] = false; }
    phase3 = true; Gai gr[2]; struct evdns_getaddrinfo_request *rr[2] = {nullptr, nullptr}; int64_t t3 = sim_now_us();
    for (int r = 0; r < n_re; r++) { struct evutil_addrinfo hr; memset(&hr, 0, sizeof hr); hr.ai_family = famr; hr.ai_socktype = SOCK_STREAM; hr.ai_flags = re_canon[r] ? EVUTIL_AI_CANONNAME : 0;
      rr[r] = evdns_getaddrinfo(w.dns, node, NULL, &hr, gai_cb, &gr[r]);
      TR("rewrite lookup %d family=%d canonname=%d at +%lldus: %s calls=%d err=%d %s", r, famr, re_canon[r], (long long)(t3 - t0), rr[r] ? "pending" : "NULL", gr[r].calls, gr[r].err, show(gr[r].ents).c_str());
      CHECK(!(rr[r] && gr[r].calls), "C38/pending-and-called", "evdns_getaddrinfo returned a request handle although the callback already ran");
      CHECK(rr[r] || gr[r].calls, "C38/no-callback", "evdns_getaddrinfo returned NULL without calling the callback");
      if (gr[r].calls) { judge(gr[r], famr, 0, re_canon[r], "lookup of a cached name"); verif_class("cache_hit"); } }
    if (n_re == 2 && rr[0] && rr[1]) verif_class("concurrent_lookups_of_one_name");
    serve([&] { for (int r = 0; r < n_re; r++) if (!gr[r].calls) return false; return true; }, 300);
    int order[2] = {0, 1}; if (n_re == 2 && gr[1].at < gr[0].at) std::swap(order[0], order[1]);
    for (int oi = 0; oi < n_re; oi++) { int r = order[oi]; Gai &x = gr[r];
      CHECK(x.calls == 1, "C38/callback-count", "lookup %d of phase 3: callback ran %d times", r, x.calls);
      CHECK(!x.bad_shape, "C38/addrinfo-shape", "malformed addrinfo entry: %s", x.shape.c_str());
      CHECK((x.err == 0) == !x.ents.empty(), "C38/success-without-addresses", "result %d with %zu entries", x.err, x.ents.size());
      if (!rr[r]) continue;
      for (int t = 0; t < 2; t++) if (needr[t]) asked_ever[t] = true;
      TR("  rewrite lookup %d completed at +%lldus err=%d %s", r, (long long)(x.at - t0), x.err, show(x.ents).c_str());
      if (x.err == 0) {
        for (auto &e : x.ents) { Addr k = e.a; k.port = 0; CHECK(sent_ttl.count(k), "C38/invented-addresses", "%s was never in a reply", e.a.str().c_str()); }
        bool live = false; for (auto &kv : fresh_until) if (kv.second > x.at) live = true;
        if (live) verif_class("cache_entry_rewritten");
        note(x, 1);
      } }
    // the lookup at a chosen age
    for (int i = 0; i < 4; i++) w.turn();
    pass_time(wait3); { Datagram d; while (udp_recv(0, &d)) {} }
    if (lcanon && canon_on_some && verif_known(K_CACHE_CANON)) { verif_known_skipped(K_CACHE_CANON); lcanon = false; }
    struct evutil_addrinfo hl; memset(&hl, 0, sizeof hl); hl.ai_family = faml; hl.ai_socktype = SOCK_STREAM; hl.ai_flags = lcanon ? EVUTIL_AI_CANONNAME : 0;
    Gai gl; struct evdns_getaddrinfo_request *rl = evdns_getaddrinfo(w.dns, node, portl ? "443" : NULL, &hl, gai_cb, &gl);
    TR("lookup after rewrite family=%d port=%d canonname=%d after %lldus: %s calls=%d err=%d %s", faml, portl, lcanon, (long long)wait3, rl ? "pending" : "NULL", gl.calls, gl.err, show(gl.ents).c_str());
    CHECK(!(rl && gl.calls), "C38/pending-and-called", "evdns_getaddrinfo returned a request handle although the callback already ran");
    CHECK(rl || gl.calls, "C38/no-callback", "evdns_getaddrinfo returned NULL without calling the callback");
    if (gl.calls) { CHECK(!gl.bad_shape, "C38/addrinfo-shape", "malformed addrinfo entry: %s", gl.shape.c_str()); judge(gl, faml, portl, lcanon, "lookup after a cache rewrite"); verif_class("after_rewrite_cache_hit"); } else verif_class("after_rewrite_cache_miss");
    if (rl) { evdns_getaddrinfo_cancel(rl); w.turn(); CHECK(gl.calls == 1, "C38/callback-count", "last lookup: callback ran %d times after cancel", gl.calls); }
  }
  // a still-pending first request cannot exist here (callback ran); flush deferred work, free timers
  for (int i = 0; i < 4; i++) w.turn();
  for (auto p : pend) { event_free(p->ev); delete p; }
  servers_drain();
  w.finish("C38/leak");
  if (did_second) verif_class("second_lookup");
  if (did_third) verif_class("rewrite_phase");
  verif_case_end(interesting, s.h);
  return 0;
}
