// C44 — a listener hands every accepted connection to its callback exactly once.
// One world per case: one base (epoll / epoll+changelist / poll / select), up to 2 evconnlisteners (AF_UNIX abstract
// namespace or loopback TCP; evconnlistener_new_bind or own socket + evconnlistener_new; LEV_OPT_* drawn), up to 6 clients
// per listener, a history of connect / client-close / enable / disable / set_cb(NULL|A|B, arg) / set_error_cb / free /
// script(accept4 errno) / loop pass, the same actions drawn again from inside the connection and error callbacks.
// The oracle is observational: every accept4() the library issues is seen through the sim I/O hook (result fd or errno)
// and the sequence  accept -> callback | close,  failed accept -> error callback  is checked event by event.
// Fault enumeration: after the plain run the same history is re-run once per accept4 call with that call failing.
// Preconditions respected: no call on a listener after evconnlistener_free (except returning from its own callback);
// fds given to evconnlistener_new are nonblocking and bound; LEV_OPT_DEFERRED_ACCEPT only with new_bind on TCP and
// clients that send at once; never more clients than the backlog.
#include "verif.h"
#include "sim.h"
#include <event2/event.h>
#include <event2/listener.h>
#include <event2/thread.h>
#include <event2/util.h>
#include <sys/socket.h>
#include <sys/stat.h>
#include <sys/un.h>
#include <netinet/in.h>
#include <netinet/tcp.h>
#include <arpa/inet.h>
#include <dirent.h>
#include <errno.h>
#include <fcntl.h>
#include <sched.h>
#include <signal.h>
#include <unistd.h>

namespace {
const int MAXL = 2, MAXC = 6, BACKLOG = 8;
struct Tok { int li; int arg; };
Tok g_tok[MAXL][3];
int g_pid;

struct Client {
  int fd = -1; int li = 0; int tag = 0; bool closed = false;
  struct sockaddr_storage addr; socklen_t alen = 0;   // what the listener must report as the peer
  enum St { QUEUED, ACCEPTED } st = QUEUED;
};
struct Acc { int fd; ino_t ino; int client; bool delivered; bool dropped; bool hclosed; };
struct Lst {
  struct evconnlistener *lev = nullptr; int lfd = -1; ino_t lino = 0; bool tcp = false; unsigned flags = 0; bool bindmode = false;
  bool created = false, user_freed = false, destroyed = false, lfd_open = false, lfd_checked = false;
  int cb_depth = 0;
  struct sockaddr_storage laddr; socklen_t llen = 0;
  // model
  bool enabled = false; int cb = 0; int arg = 0; bool errcb = false;
  // observation
  int out_acc = -1; bool out_expect_cb = false; bool await_err = false; int await_errno = 0;
  int accepts_turn = 0; bool elig_at_start = false, changed_in_turn = false; bool sticky = false;
  int nclients = 0;
};
struct World {
  Src *s; struct event_base *base = nullptr; Lst L[MAXL]; std::vector<Client> cl; std::vector<Acc> acc;
  int cb_budget = 10; bool unsound = false; int run_no = 0; int scripts = 0; uint64_t faults_seen = 0;
  int accept_calls = 0, delivered = 0, dropped = 0, scripted_fail = 0, fatal_seen = 0, retri_seen = 0, errcb_runs = 0;
  int free_in_cb = 0, free_with_queue = 0, toggle_with_queue = 0, setcb_changes = 0, incb_actions = 0, tcp_used = 0, nlisteners = 0;
  int disabled_with_queue_turns = 0, threadsafe = 0, deferred = 0; int sticky_fd = -1;
  bool inj_pending = false; int inj_pass_left = 0, inj_errno = 0;   // the enumerated fault (survives "clear scripts")
};
World *W;

const int ERRNOS[] = {EAGAIN, EINTR, ECONNABORTED, EMFILE, ENFILE, EBADF, ENOMEM, ENOBUFS};
const char *ename(int e) {
  switch (e) { case EAGAIN: return "EAGAIN"; case EINTR: return "EINTR"; case ECONNABORTED: return "ECONNABORTED"; case EMFILE: return "EMFILE";
    case ENFILE: return "ENFILE"; case EBADF: return "EBADF"; case ENOMEM: return "ENOMEM"; case ENOBUFS: return "ENOBUFS"; default: return "errno?"; } }
bool retriable(int e) { return e == EINTR || e == EAGAIN || e == EWOULDBLOCK || e == ECONNABORTED; }

bool fd_is(int fd, ino_t ino) { struct stat st; return fd >= 0 && fstat(fd, &st) == 0 && st.st_ino == ino; }
ino_t fd_ino(int fd) { struct stat st; return fstat(fd, &st) == 0 ? st.st_ino : 0; }
int count_fds() { int n = 0; DIR *d = opendir("/proc/self/fd"); if (!d) return -1; while (readdir(d)) n++; closedir(d); return n; }
int queued(int li) { int n = 0; for (auto &c : W->cl) if (c.li == li && c.st == Client::QUEUED) n++; return n; }

void lock_check(const char *when) {
  const char *d = nullptr;
  CHECK(sim_lockmon_error() == nullptr, "C44/lock-misuse", "%s: %s", when, sim_lockmon_error());
  int h = sim_lockmon_held(&d);
  CHECK(h == 0, "C44/lock-held", "%s: %d lock(s) still held at top level (%s)", when, h, d ? d : "?");
}

// an accepted fd that never got its callback must have been closed by the library; a failed accept must have been reported
void settle(Lst &l, int li, const char *when) {
  World &w = *W;
  if (l.out_acc >= 0) {
    Acc &a = w.acc[l.out_acc];
    CHECK(!l.out_expect_cb, "C44/accepted-not-delivered", "%s: listener %d accepted fd %d (client %d) with a callback set but never passed it to the callback", when, li, a.fd, a.client);
    CHECK(!fd_is(a.fd, a.ino), "C44/accepted-fd-leaked", "%s: listener %d accepted fd %d (client %d) with no callback set and left it open", when, li, a.fd, a.client);
    a.dropped = true; w.dropped++; l.out_acc = -1;
  }
  CHECK(!l.await_err, "C44/error-not-reported", "%s: listener %d: accept failed with %s (not retriable) and an error callback is set, but it was not invoked", when, li, ename(l.await_errno));
}

void check_lfd_after_free(Lst &l, int li, const char *when) {
  if (l.lfd_checked) return; l.lfd_checked = true; l.destroyed = true;
  bool open = fd_is(l.lfd, l.lino);
  bool want_closed = (l.flags & LEV_OPT_CLOSE_ON_FREE) != 0;
  TR("  listener %d after free (%s): listening fd %d open=%d CLOSE_ON_FREE=%d", li, when, l.lfd, open, want_closed);
  CHECK(open == !want_closed, "C44/listen-fd-close", "%s: listener %d freed, LEV_OPT_CLOSE_ON_FREE=%d but listening fd %d is %s", when, li, want_closed, l.lfd, open ? "still open" : "closed");
  l.lfd_open = open;
}

int identify(Lst &l, int li, int fd) {
  World &w = *W;
  if (l.tcp) {
    struct sockaddr_in p; socklen_t pl = sizeof p;
    if (getpeername(fd, (struct sockaddr *)&p, &pl) == 0)
      for (size_t i = 0; i < w.cl.size(); i++) { Client &c = w.cl[i];
        if (c.li == li && c.st == Client::QUEUED && ((struct sockaddr_in *)&c.addr)->sin_port == p.sin_port) return (int)i; }
  } else {
    unsigned char b = 0;
    if (recv(fd, &b, 1, MSG_PEEK | MSG_DONTWAIT) == 1)
      for (size_t i = 0; i < w.cl.size(); i++) { Client &c = w.cl[i]; if (c.li == li && c.st == Client::QUEUED && c.tag == b) return (int)i; }
  }
  for (size_t i = 0; i < w.cl.size(); i++) if (w.cl[i].li == li && w.cl[i].st == Client::QUEUED) return (int)i;   // FIFO fallback
  return -1;
}

void io_hook(const struct sim_io_rec *r, void *) {
  if (r->kind != SYS_ACCEPT || !W) return;
  World &w = *W; int li = -1;
  if (w.inj_pending) { if (w.inj_pass_left > 0) w.inj_pass_left--; else w.inj_pending = false; }
  for (int i = 0; i < MAXL; i++) if (w.L[i].created && !w.L[i].destroyed && w.L[i].lfd == r->fd) li = i;
  if (li < 0) return;
  Lst &l = w.L[li];
  bool scripted = sim_sys_faults[SYS_ACCEPT] != w.faults_seen; w.faults_seen = sim_sys_faults[SYS_ACCEPT];
  w.accept_calls++; l.accepts_turn++;
  TR("  accept4(listener %d) -> %ld%s%s", li, r->result, r->result < 0 ? " " : "", r->result < 0 ? ename(r->err) : "");
  settle(l, li, "at the next accept");
  CHECK(!l.user_freed, "C44/accept-after-free", "listener %d called accept after evconnlistener_free", li);
  CHECK(l.enabled, "C44/accept-while-disabled", "listener %d called accept while disabled", li);
  if (r->result >= 0) {
    int fd = (int)r->result; int ci = identify(l, li, fd);
    CHECK(ci >= 0, "harness/unidentified-connection", "listener %d accepted fd %d but the harness has no queued client", li, fd);
    w.cl[ci].st = Client::ACCEPTED;
    w.acc.push_back(Acc{fd, fd_ino(fd), ci, false, false, false});
    l.out_acc = (int)w.acc.size() - 1; l.out_expect_cb = l.cb != 0;
  } else {
    if (scripted) w.scripted_fail++;
    if (!retriable(r->err)) { w.fatal_seen++; l.await_err = l.errcb; l.await_errno = r->err; }
    else if (scripted) w.retri_seen++;
  }
}

void act(int li, int kind, bool in_cb);

void on_conn(int which, struct evconnlistener *lev, evutil_socket_t fd, struct sockaddr *addr, int socklen, void *ud) {
  World &w = *W;
  Tok *t = (Tok *)ud;
  CHECK(t >= &g_tok[0][0] && t <= &g_tok[MAXL - 1][2], "C44/wrong-user-data", "callback got a user pointer that was never set");
  int li = t->li; Lst &l = w.L[li];
  TR("  cb%c(listener %d, fd %d, socklen %d, arg %d)", which == 1 ? 'A' : 'B', li, (int)fd, socklen, t->arg);
  CHECK(l.created && lev == l.lev, "C44/wrong-listener", "callback got a listener pointer that does not belong to its user data");
  CHECK(!l.user_freed, "C44/callback-after-free", "listener %d delivered a connection after evconnlistener_free", li);
  CHECK(l.enabled, "C44/delivered-while-disabled", "listener %d delivered fd %d while disabled", li, (int)fd);
  CHECK(l.cb == which, "C44/wrong-callback", "listener %d: callback %d ran but callback %d is set", li, which, l.cb);
  CHECK(t->arg == l.arg, "C44/wrong-user-data", "listener %d: callback got arg %d, evconnlistener_set_cb set %d", li, t->arg, l.arg);
  CHECK(l.out_acc >= 0 && l.out_expect_cb && w.acc[l.out_acc].fd == fd && !w.acc[l.out_acc].delivered, "C44/duplicate-or-invented-delivery",
        "listener %d: callback got fd %d which is not the fd of the latest undelivered accept (%d)", li, (int)fd, l.out_acc >= 0 ? w.acc[l.out_acc].fd : -1);
  int ai = l.out_acc; Acc &a = w.acc[ai]; a.delivered = true; l.out_acc = -1; w.delivered++;
  CHECK(fd_is(fd, a.ino), "C44/delivered-fd-closed", "listener %d: fd %d was closed before it reached the callback", li, (int)fd);
  Client &c = w.cl[a.client];
  bool addr_ok;
  if (l.tcp) { struct sockaddr_in *g = (struct sockaddr_in *)addr, *e = (struct sockaddr_in *)&c.addr;
    addr_ok = socklen == (int)sizeof(struct sockaddr_in) && g->sin_family == AF_INET && g->sin_port == e->sin_port && g->sin_addr.s_addr == e->sin_addr.s_addr; }
  else addr_ok = socklen == (int)c.alen && addr->sa_family == AF_UNIX && memcmp(addr, &c.addr, c.alen) == 0;
  CHECK(addr_ok, "C44/peer-address", "listener %d: fd %d (client %d) reported with socklen %d addr %s, expected socklen %d addr %s", li, (int)fd, a.client, socklen,
        hexs(addr, socklen > 0 && socklen < 128 ? socklen : 0).c_str(), (int)c.alen, hexs(&c.addr, c.alen).c_str());
  int fl = fcntl(fd, F_GETFL), fdfl = fcntl(fd, F_GETFD);
  bool want_nb = !(l.flags & LEV_OPT_LEAVE_SOCKETS_BLOCKING);
  CHECK(!!(fl & O_NONBLOCK) == want_nb, "C44/accepted-fd-flags", "listener %d: fd %d O_NONBLOCK=%d but LEV_OPT_LEAVE_SOCKETS_BLOCKING=%d", li, (int)fd, !!(fl & O_NONBLOCK), !want_nb);
  if (l.flags & LEV_OPT_CLOSE_ON_EXEC) CHECK(fdfl & FD_CLOEXEC, "C44/accepted-fd-flags", "listener %d: fd %d lacks FD_CLOEXEC although LEV_OPT_CLOSE_ON_EXEC is set", li, (int)fd);
  // optional action from inside the callback
  if (w.cb_budget > 0) {
    w.cb_budget--; l.cb_depth++;
    int k = w.s->below(14);
    if (k == 1) { TR("    in-cb close fd %d", (int)fd); close(fd); w.acc[ai].hclosed = true; }
    else if (k >= 2) { w.incb_actions++; act(k >= 12 ? (li ^ 1) : li, k, true); }
    if (k >= 1 && w.s->below(4) == 3) { int k2 = 2 + (int)w.s->below(10); w.incb_actions++; act(li, k2, true); }   // a second action in the same callback (e.g. disable, then free)
    l.cb_depth--;
  }
}
void cbA(struct evconnlistener *lev, evutil_socket_t fd, struct sockaddr *a, int sl, void *ud) { on_conn(1, lev, fd, a, sl, ud); }
void cbB(struct evconnlistener *lev, evutil_socket_t fd, struct sockaddr *a, int sl, void *ud) { on_conn(2, lev, fd, a, sl, ud); }
evconnlistener_cb CBS[] = {nullptr, cbA, cbB};

void on_err(struct evconnlistener *lev, void *ud) {
  World &w = *W;
  Tok *t = (Tok *)ud;
  CHECK(t >= &g_tok[0][0] && t <= &g_tok[MAXL - 1][2], "C44/wrong-user-data", "error callback got a user pointer that was never set");
  int li = t->li; Lst &l = w.L[li];
  TR("  errcb(listener %d, arg %d)", li, t->arg);
  CHECK(l.created && lev == l.lev, "C44/wrong-listener", "error callback got a listener pointer that does not belong to its user data");
  CHECK(!l.user_freed, "C44/callback-after-free", "listener %d ran its error callback after evconnlistener_free", li);
  CHECK(l.errcb, "C44/error-callback-after-clear", "listener %d ran an error callback that was cleared", li);
  CHECK(l.await_err, "C44/spurious-error-callback", "listener %d ran its error callback without a non-retriable accept failure", li);
  CHECK(t->arg == l.arg, "C44/wrong-user-data", "listener %d: error callback got arg %d, current is %d", li, t->arg, l.arg);
  l.await_err = false; w.errcb_runs++;
  if (w.cb_budget > 0) {
    w.cb_budget--; l.cb_depth++;
    int k = w.s->below(14);
    if (k >= 2) { w.incb_actions++; act(k >= 12 ? (li ^ 1) : li, k, true); }
    l.cb_depth--;
  }
}

bool tcp_wait_queue(Lst &l, int li) {
  unsigned want = (unsigned)queued(li);
  for (int it = 0; it < 20000; it++) {
    struct tcp_info ti; socklen_t tl = sizeof ti;
    if (getsockopt(l.lfd, IPPROTO_TCP, TCP_INFO, &ti, &tl) < 0) return false;
    if (ti.tcpi_unacked >= want) return true;
    if (it < 200) sched_yield(); else usleep(100);
  }
  return false;
}

void do_connect(int li, bool in_cb) {
  World &w = *W; Lst &l = w.L[li]; Src &s = *w.s;
  if (!l.created || !l.lfd_open || l.nclients >= MAXC) return;
  if (l.user_freed && !l.destroyed) return;   // between free-in-callback and the return: fd state not yet known
  Client c; c.li = li; c.tag = (int)w.cl.size() + 1;
  bool bound = false, sendnow;
  if (l.tcp) {
    c.fd = socket(AF_INET, SOCK_STREAM | SOCK_CLOEXEC, 0); if (c.fd < 0) return;
    struct timeval tv = {2, 0}; setsockopt(c.fd, SOL_SOCKET, SO_SNDTIMEO, &tv, sizeof tv);
    sendnow = (l.flags & LEV_OPT_DEFERRED_ACCEPT) || s.flag();
    if (connect(c.fd, (struct sockaddr *)&l.laddr, l.llen) < 0) { TR("connect(listener %d) failed errno=%d", li, errno); close(c.fd); w.unsound = true; return; }
    socklen_t al = sizeof c.addr; memset(&c.addr, 0, sizeof c.addr); getsockname(c.fd, (struct sockaddr *)&c.addr, &al); c.alen = al;
  } else {
    c.fd = socket(AF_UNIX, SOCK_STREAM | SOCK_CLOEXEC | SOCK_NONBLOCK, 0); if (c.fd < 0) return;
    bound = s.flag(); sendnow = true;
    memset(&c.addr, 0, sizeof c.addr); struct sockaddr_un *u = (struct sockaddr_un *)&c.addr; u->sun_family = AF_UNIX;
    if (bound) { int n = snprintf(u->sun_path + 1, sizeof u->sun_path - 1, "verif-c44c-%d-%d", g_pid, c.tag);
      c.alen = (socklen_t)(offsetof(struct sockaddr_un, sun_path) + 1 + n);
      if (bind(c.fd, (struct sockaddr *)u, c.alen) < 0) { close(c.fd); return; } }
    else c.alen = sizeof(sa_family_t);
    if (connect(c.fd, (struct sockaddr *)&l.laddr, l.llen) < 0) { TR("connect(listener %d) failed errno=%d", li, errno); close(c.fd); return; }
  }
  if (sendnow) { unsigned char b = (unsigned char)c.tag; ssize_t r = send(c.fd, &b, 1, MSG_NOSIGNAL); (void)r; }
  l.nclients++; w.cl.push_back(c);
  TR("%sconnect client %d -> listener %d (%s%s%s)", in_cb ? "    in-cb " : "", c.tag - 1, li, l.tcp ? "tcp" : "unix", bound ? ", bound" : "", sendnow ? ", sends" : "");
  if (l.tcp && !tcp_wait_queue(l, li)) { w.unsound = true; verif_class("tcp_queue_timeout"); }
}

void do_free(int li, bool in_cb) {
  World &w = *W; Lst &l = w.L[li];
  if (!l.created || l.user_freed) return;
  TR("%sfree listener %d (queued %d)%s", in_cb ? "    in-cb " : "", li, queued(li), l.cb_depth ? " [own callback]" : "");
  if (queued(li) > 0 && l.lfd_open) w.free_with_queue++;
  if (l.cb_depth) w.free_in_cb++;
  l.user_freed = true; l.changed_in_turn = true;
  evconnlistener_free(l.lev);
  if (!l.cb_depth) { l.lev = nullptr; check_lfd_after_free(l, li, "right after evconnlistener_free"); }
}

// kinds: 2 disable, 3 enable, 4 set_cb, 5 free, 6 connect, 7 script, 8 set_error_cb, 9 client close, 10 clear scripts, 11 set_cb(NULL), 12 free other (in-cb), 13 toggle other (in-cb)
void act(int li, int kind, bool in_cb) {
  World &w = *W; Src &s = *w.s;
  if (li < 0 || li >= MAXL) return;
  Lst &l = w.L[li];
  const char *pre = in_cb ? "    in-cb " : "";
  if (kind == 6) { do_connect(li, in_cb); return; }
  if (kind == 9) { if (w.cl.empty()) return; int i = s.below((uint32_t)w.cl.size()); Client &c = w.cl[i]; if (!c.closed) { TR("%sclient %d closes", pre, i); close(c.fd); c.closed = true; } return; }
  if (kind == 10) { TR("%sclear accept scripts", pre); sim_script_clear(); w.scripts = 0; w.sticky_fd = -1; for (auto &x : w.L) x.sticky = false;
    if (w.inj_pending) { for (int k = 0; k < w.inj_pass_left; k++) sim_script(SYS_ACCEPT, -1, ACT_PASS, 0); sim_script(SYS_ACCEPT, -1, ACT_FAIL, w.inj_errno); w.scripts = w.inj_pass_left + 1; }
    return; }
  if (!l.created || l.user_freed) return;
  switch (kind) {
    case 2: case 3: case 13: if (kind == 3 || (kind == 13 && s.flag())) {
        int r = evconnlistener_enable(l.lev); TR("%senable listener %d -> %d", pre, li, r); CHECK(r == 0, "C44/enable-failed", "evconnlistener_enable=%d", r);
        if (!l.enabled && queued(li)) w.toggle_with_queue++; l.enabled = true; break; }
      { int r = evconnlistener_disable(l.lev); TR("%sdisable listener %d -> %d", pre, li, r); CHECK(r == 0, "C44/disable-failed", "evconnlistener_disable=%d", r);
        if (l.enabled && queued(li)) w.toggle_with_queue++; l.enabled = false; l.changed_in_turn = true; } break;
    case 4: case 11: { int c = kind == 11 ? 0 : 1 + (int)s.below(2); int a = s.below(3);
        TR("%sset_cb listener %d cb=%c arg=%d", pre, li, c == 0 ? '0' : c == 1 ? 'A' : 'B', a);
        evconnlistener_set_cb(l.lev, CBS[c], &g_tok[li][a]); if (c != l.cb || a != l.arg) w.setcb_changes++; if (c == 0) l.changed_in_turn = true; l.cb = c; l.arg = a; } break;
    case 5: case 12: do_free(li, in_cb); break;
    case 7: { int e = ERRNOS[s.below(sizeof ERRNOS / sizeof ERRNOS[0])]; bool sticky = s.below(8) == 7;
        TR("%sscript accept4(listener %d) -> %s%s", pre, li, ename(e), sticky ? " (every call)" : "");
        if (sticky) { sim_script_sticky(SYS_ACCEPT, l.lfd, ACT_FAIL, e); for (auto &x : w.L) x.sticky = false; l.sticky = true; w.sticky_fd = l.lfd; }
        else { sim_script(SYS_ACCEPT, l.lfd, ACT_FAIL, e); w.scripts++; } } break;
    case 8: { bool on = s.below(4) != 0; TR("%sset_error_cb listener %d %s", pre, li, on ? "on" : "NULL"); evconnlistener_set_error_cb(l.lev, on ? on_err : nullptr); l.errcb = on; } break;
    default: break;
  }
}

const int BL3[] = {0, -1, BACKLOG};
void create_listener(int li) {
  World &w = *W; Src &s = *w.s; Lst &l = w.L[li];
  l = Lst();
  l.tcp = s.below(3) == 2;
  l.bindmode = s.flag();
  unsigned f = 0; uint32_t bits = s.below(256);
  if (bits & 1) f |= LEV_OPT_CLOSE_ON_FREE;
  if (bits & 2) f |= LEV_OPT_THREADSAFE;
  if (bits & 4) f |= LEV_OPT_CLOSE_ON_EXEC;
  if ((bits & 24) == 24) f |= LEV_OPT_DISABLED;
  if ((bits & 32) && l.tcp && l.bindmode) f |= LEV_OPT_DEFERRED_ACCEPT;
  if ((bits & 192) == 192) f |= LEV_OPT_LEAVE_SOCKETS_BLOCKING;
  if (l.tcp && s.below(4) == 3) f |= LEV_OPT_REUSEABLE;
  l.flags = f;
  int c = s.below(4); if (c == 3) c = 1; int a = s.below(3); bool ecb = s.below(3) != 0;
  int backlog = l.bindmode ? (s.flag() ? -1 : BACKLOG) : BL3[s.below(3)];
  memset(&l.laddr, 0, sizeof l.laddr);
  if (l.tcp) { struct sockaddr_in *in = (struct sockaddr_in *)&l.laddr; in->sin_family = AF_INET; in->sin_addr.s_addr = htonl(INADDR_LOOPBACK); l.llen = sizeof *in; }
  else { struct sockaddr_un *u = (struct sockaddr_un *)&l.laddr; u->sun_family = AF_UNIX; int n = snprintf(u->sun_path + 1, sizeof u->sun_path - 1, "verif-c44-%d-%d", g_pid, li);
    l.llen = (socklen_t)(offsetof(struct sockaddr_un, sun_path) + 1 + n); }
  TR("create listener %d %s %s flags=0x%x cb=%c arg=%d errcb=%d backlog=%d", li, l.tcp ? "tcp" : "unix", l.bindmode ? "new_bind" : "new(fd)", f, c == 0 ? '0' : c == 1 ? 'A' : 'B', a, ecb, backlog);
  if (l.bindmode) {
    l.lev = evconnlistener_new_bind(w.base, CBS[c], &g_tok[li][a], f, backlog, (struct sockaddr *)&l.laddr, (int)l.llen);
    if (!l.lev) { TR("  -> NULL"); return; }
    l.lfd = evconnlistener_get_fd(l.lev);
  } else {
    int fd = socket(l.tcp ? AF_INET : AF_UNIX, SOCK_STREAM | SOCK_NONBLOCK, 0); if (fd < 0) return;
    if (bind(fd, (struct sockaddr *)&l.laddr, l.llen) < 0 || (backlog == 0 && listen(fd, BACKLOG) < 0)) { close(fd); return; }
    l.lev = evconnlistener_new(w.base, CBS[c], &g_tok[li][a], f, backlog, fd);
    if (!l.lev) { close(fd); TR("  -> NULL"); return; }
    CHECK(evconnlistener_get_fd(l.lev) == fd, "C44/get-fd", "evconnlistener_get_fd=%d, created on %d", (int)evconnlistener_get_fd(l.lev), fd);
    l.lfd = fd;
  }
  CHECK(evconnlistener_get_base(l.lev) == w.base, "C44/get-base", "evconnlistener_get_base returned another base");
  if (l.tcp) { socklen_t sl = sizeof l.laddr; getsockname(l.lfd, (struct sockaddr *)&l.laddr, &sl); l.llen = sl; w.tcp_used++; }
  if (l.bindmode && (f & LEV_OPT_CLOSE_ON_EXEC)) CHECK(fcntl(l.lfd, F_GETFD) & FD_CLOEXEC, "C44/listen-cloexec", "new_bind with LEV_OPT_CLOSE_ON_EXEC made a listening socket without FD_CLOEXEC");
  if (l.lfd == w.sticky_fd) l.sticky = true;   // a scripted "every call fails" is keyed by fd number
  l.lino = fd_ino(l.lfd); l.created = true; l.lfd_open = true; l.enabled = !(f & LEV_OPT_DISABLED); l.cb = c; l.arg = a; w.nlisteners++;
  if (f & LEV_OPT_THREADSAFE) w.threadsafe++; if (f & LEV_OPT_DEFERRED_ACCEPT) w.deferred++;
  if (ecb) { evconnlistener_set_error_cb(l.lev, on_err); l.errcb = true; }
}

int64_t wait_hook(const struct sim_wait_info *, void *) { return 20; }

void turn(const char *why) {
  World &w = *W;
  for (int i = 0; i < MAXL; i++) { Lst &l = w.L[i]; l.accepts_turn = 0; l.changed_in_turn = false;
    l.elig_at_start = l.created && !l.user_freed && l.enabled && l.cb != 0 && queued(i) > 0;
    if (l.created && !l.user_freed && !l.enabled && queued(i) > 0) w.disabled_with_queue_turns++; }
  TR("turn (%s)", why);
  int r = event_base_loop(w.base, EVLOOP_ONCE | EVLOOP_NONBLOCK);
  CHECK(r >= 0, "C44/loop-error", "event_base_loop=%d", r);
  for (int i = 0; i < MAXL; i++) { Lst &l = w.L[i]; if (!l.created) continue;
    settle(l, i, "after the loop pass");
    if (l.user_freed && !l.lfd_checked) { l.lev = nullptr; check_lfd_after_free(l, i, "after the callback that freed it returned"); }
    if (l.elig_at_start && !l.changed_in_turn && !w.unsound)
      CHECK(l.accepts_turn > 0, "C44/pending-not-serviced", "listener %d is enabled with a callback and has %d queued connection(s) but a loop pass did not accept", i, queued(i));
  }
  lock_check("after a loop pass");
}

struct RunResult { int accept_calls; uint64_t hash; int nontrivial; int enum_mode; };

RunResult run_case(const uint8_t *data, size_t size, int inject_at, int run_no) {
  sim_reset();
  Src s(data, size);
  World w; W = &w; w.s = &s; w.run_no = run_no;
  int64_t live0 = sim_mem_live_blocks; int fds0 = count_fds();
  sim_clock_enable(SIM_START_US);
  sim_set_wait_hook(wait_hook, nullptr);
  sim_set_io_hook(io_hook, nullptr);
  int enum_mode = s.below(2); int inj_errno = ERRNOS[s.below(sizeof ERRNOS / sizeof ERRNOS[0])];
  if (inject_at >= 0) { TR("=== re-run %d: accept4 call #%d fails with %s", run_no, inject_at, ename(inj_errno));
    for (int k = 0; k < inject_at; k++) sim_script(SYS_ACCEPT, -1, ACT_PASS, 0);
    sim_script(SYS_ACCEPT, -1, ACT_FAIL, inj_errno); w.scripts += inject_at + 1; w.inj_pending = true; w.inj_pass_left = inject_at; w.inj_errno = inj_errno; }
  struct event_config *cfg = event_config_new();
  int backend = s.below(4);
  static const char *AVOID[][3] = {{nullptr}, {nullptr}, {"epoll", nullptr}, {"epoll", "poll", nullptr}};
  for (int k = 0; AVOID[backend][k]; k++) event_config_avoid_method(cfg, AVOID[backend][k]);
  if (backend == 1) event_config_set_flag(cfg, EVENT_BASE_FLAG_EPOLL_USE_CHANGELIST);
  w.base = event_base_new_with_config(cfg); event_config_free(cfg);
  RunResult rr{0, s.h, 0, enum_mode};
  if (!w.base) { W = nullptr; return rr; }
  TR("base %s%s", event_base_get_method(w.base), backend == 1 ? "+changelist" : "");

  for (int step = 0; step < 48; step++) {
    int op = s.below(16);
    if (op == 0) break;
    int li = s.below(MAXL);
    if (op == 1) { if (!w.L[li].created) create_listener(li); else do_connect(li, false); }
    else if (op >= 14) turn("op");
    else if (op == 12 || op == 13) do_connect(li, false);
    else act(li, op, false);
    lock_check("after an op");
  }
  // drain: with nothing changing any more, every queued connection of an enabled listener with a callback must come out
  w.cb_budget = 0;
  int passes = w.scripts + 3; if (passes > 40) passes = 40;
  for (int p = 0; p < passes; p++) {
    bool any = false; for (int i = 0; i < MAXL; i++) { Lst &l = w.L[i]; if (l.created && !l.user_freed && l.enabled && l.cb && !l.sticky && queued(i) > 0) any = true; }
    if (!any) break;
    turn("drain");
  }
  if (!w.unsound) for (int i = 0; i < MAXL; i++) { Lst &l = w.L[i];
    if (l.created && !l.user_freed && l.enabled && l.cb && !l.sticky)
      CHECK(queued(i) == 0, "C44/connection-never-delivered", "listener %d (enabled, callback set) still has %d connection(s) queued after %d drain passes", i, queued(i), passes); }
  // every accepted fd was delivered exactly once or closed by the library
  for (auto &a : w.acc) CHECK(a.delivered != a.dropped, "C44/ledger", "accepted fd %d: delivered=%d dropped=%d", a.fd, a.delivered, a.dropped);
  // teardown
  sim_script_clear();
  for (int i = 0; i < MAXL; i++) do_free(i, false);
  lock_check("after teardown");
  for (int i = 0; i < MAXL; i++) { Lst &l = w.L[i]; if (l.created && l.lfd_open) { CHECK(fd_is(l.lfd, l.lino), "C44/listen-fd-close", "listening fd %d of listener %d vanished although LEV_OPT_CLOSE_ON_FREE is not set", l.lfd, i); close(l.lfd); l.lfd_open = false; } }
  for (auto &a : w.acc) if (a.delivered && !a.hclosed) { CHECK(fd_is(a.fd, a.ino), "C44/delivered-fd-closed", "fd %d handed to the callback was closed by somebody else", a.fd); close(a.fd); }
  for (auto &c : w.cl) if (!c.closed) close(c.fd);
  event_base_free(w.base);
  CHECK(sim_mem_live_blocks == live0, "C44/leak", "library allocations outstanding after teardown: %lld", (long long)(sim_mem_live_blocks - live0));
  int fds1 = count_fds();
  CHECK(fds1 == fds0, "C44/fd-leak", "open fds before the case %d, after %d", fds0, fds1);
  lock_check("after base free");

  bool special = w.scripted_fail > 0 || w.toggle_with_queue > 0 || w.setcb_changes > 0 || w.free_in_cb > 0 || w.free_with_queue > 0 || w.dropped > 0 || w.nlisteners > 1;
  rr.accept_calls = w.accept_calls; rr.hash = s.h; rr.nontrivial = w.delivered >= 1 && special;
  if (run_no == 0) {
    if (w.delivered) verif_class("delivered"); if (w.dropped) verif_class("dropped_no_cb"); if (w.tcp_used) verif_class("tcp"); if (w.nlisteners > 1) verif_class("two_listeners");
    if (w.free_in_cb) verif_class("free_in_callback"); if (w.free_with_queue) verif_class("free_with_queue"); if (w.toggle_with_queue) verif_class("toggle_with_queue");
    if (w.setcb_changes) verif_class("set_cb_change"); if (w.disabled_with_queue_turns) verif_class("turn_while_disabled_with_queue"); if (w.threadsafe) verif_class("threadsafe"); if (w.deferred) verif_class("deferred_accept");
    if (w.incb_actions) verif_class("in_callback_action");
    if (enum_mode) verif_class("enum_mode");
  }
  if (w.retri_seen) verif_class("scripted_retriable"); if (w.fatal_seen) verif_class("nonretriable_failure"); if (w.errcb_runs) verif_class("error_cb_ran");
  if (inject_at >= 0 && w.scripted_fail) verif_class("injected_runs");
  W = nullptr;
  return rr;
}
}  // namespace

extern "C" int LLVMFuzzerInitialize(int *, char ***) {
  sim_mem_install(); sim_lockmon_install(); signal(SIGPIPE, SIG_IGN);
  event_set_log_callback([](int, const char *) {});
  g_pid = (int)getpid();
  for (int i = 0; i < MAXL; i++) for (int a = 0; a < 3; a++) g_tok[i][a] = Tok{i, a};
  struct event_base *b = event_base_new(); char x[8]; evutil_secure_rng_get_bytes(x, sizeof x); event_base_free(b);
  return 0;
}

extern "C" int LLVMFuzzerTestOneInput(const uint8_t *data, size_t size) {
  verif_case_begin("C44");
  RunResult r0 = run_case(data, size, -1, 0);
  int nontrivial = r0.nontrivial;
  if (r0.enum_mode && r0.accept_calls > 0) {   // enum mode: fail every accept4 call of the plain run in turn
    int n = r0.accept_calls; if (n > 12) n = 12;
    for (int k = 0; k < n; k++) { RunResult r = run_case(data, size, k, k + 1); nontrivial |= r.nontrivial; }
  }
  verif_case_end(nontrivial, r0.hash);
  return 0;
}
