// C41 — ASCII and socket-address helpers vs explicit locale-independent reference definitions.
// Preconditions: C strings (NUL-terminated); sockaddrs are AF_INET / AF_INET6 of full size.
#include "verif.h"
#include "sim.h"
#include <event2/util.h>
#include <netinet/in.h>
#include <sys/socket.h>
extern "C" {
#include "util-internal.h"
}

static int ref_lower(int c) { return (c >= 'A' && c <= 'Z') ? c + 32 : c; }
static int ref_upper(int c) { return (c >= 'a' && c <= 'z') ? c - 32 : c; }
static int sgn(int v) { return v < 0 ? -1 : v > 0 ? 1 : 0; }

static void ctype_all(void) {
  for (int i = 0; i < 256; i++) {
    char c = (char)i;
    bool up = i >= 'A' && i <= 'Z', lo = i >= 'a' && i <= 'z', dg = i >= '0' && i <= '9';
    bool xd = dg || (i >= 'a' && i <= 'f') || (i >= 'A' && i <= 'F');
    bool sp = i == ' ' || (i >= 9 && i <= 13);
    bool pr = i >= 32 && i <= 126;
    CHECK(!!EVUTIL_ISALPHA_(c) == (up || lo), "C41/ctype", "ISALPHA(%d)", i);
    CHECK(!!EVUTIL_ISALNUM_(c) == (up || lo || dg), "C41/ctype", "ISALNUM(%d)", i);
    CHECK(!!EVUTIL_ISSPACE_(c) == sp, "C41/ctype", "ISSPACE(%d)", i);
    CHECK(!!EVUTIL_ISDIGIT_(c) == dg, "C41/ctype", "ISDIGIT(%d)", i);
    CHECK(!!EVUTIL_ISXDIGIT_(c) == xd, "C41/ctype", "ISXDIGIT(%d)", i);
    CHECK(!!EVUTIL_ISPRINT_(c) == pr, "C41/ctype", "ISPRINT(%d)", i);
    CHECK(!!EVUTIL_ISLOWER_(c) == lo, "C41/ctype", "ISLOWER(%d)", i);
    CHECK(!!EVUTIL_ISUPPER_(c) == up, "C41/ctype", "ISUPPER(%d)", i);
    CHECK((unsigned char)EVUTIL_TOUPPER_(c) == ref_upper(i), "C41/ctype", "TOUPPER(%d)=%d", i, (unsigned char)EVUTIL_TOUPPER_(c));
    CHECK((unsigned char)EVUTIL_TOLOWER_(c) == ref_lower(i), "C41/ctype", "TOLOWER(%d)=%d", i, (unsigned char)EVUTIL_TOLOWER_(c));
  }
}

static const char ALPHA[] = {'a', 'A', 'b', 'B', 'z', 'Z', '@', '[', '`', '{', '0', ' ', '\t', '\x80', '\xc1', '\xe1', '\xff', '_', 'k', 'K', 'm'};
static std::string gen_str(Src &s, size_t maxlen) {
  size_t n = s.below((uint32_t)maxlen + 1);
  std::string r;
  for (size_t i = 0; i < n; i++) { char c = s.chance(1, 8) ? (char)(1 + s.below(255)) : ALPHA[s.below(sizeof ALPHA)]; r.push_back(c); }
  return r;
}
// derive a string related to `a`: same folded prefix, random case flips, then maybe diverge
static std::string related(Src &s, const std::string &a) {
  std::string b = a;
  for (auto &c : b) if (s.chance(1, 3)) { int u = (unsigned char)c; c = (char)((u >= 'a' && u <= 'z') ? u - 32 : (u >= 'A' && u <= 'Z') ? u + 32 : u); }
  switch (s.below(4)) {
    case 0: break;
    case 1: if (!b.empty()) b.resize(s.below((uint32_t)b.size())); break;
    case 2: if (!b.empty()) { size_t i = s.below((uint32_t)b.size()); b[i] = ALPHA[s.below(sizeof ALPHA)]; } break;
    default: b += gen_str(s, 4); break;
  }
  return b;
}
// returns sign per the ASCII definition, and sets *ascii_defined when the first differing folded bytes are both < 0x80
static int ref_casecmp(const std::string &a, const std::string &b, size_t n, bool *ascii_defined) {
  *ascii_defined = true;
  for (size_t i = 0; i < n; i++) {
    int x = i < a.size() ? (unsigned char)a[i] : 0, y = i < b.size() ? (unsigned char)b[i] : 0;
    int fx = ref_lower(x), fy = ref_lower(y);
    if (fx != fy) { *ascii_defined = fx < 0x80 && fy < 0x80; return fx < fy ? -1 : 1; }
    if (x == 0) return 0;
  }
  return 0;
}

static void fill_sa(Src &s, struct sockaddr_storage *ss, const struct sockaddr_storage *like) {
  memset(ss, 0, sizeof *ss);
  if (like && s.chance(2, 3)) { *ss = *like;
    unsigned m = s.below(4);
    if (m == 0) return;
    if (ss->ss_family == AF_INET) { struct sockaddr_in *in = (struct sockaddr_in *)ss; if (m == 1) in->sin_port = s.u16(); else ((uint8_t *)&in->sin_addr)[s.below(4)] ^= (uint8_t)(1u << s.below(8)); }
    else { struct sockaddr_in6 *in6 = (struct sockaddr_in6 *)ss; if (m == 1) in6->sin6_port = s.u16(); else in6->sin6_addr.s6_addr[s.below(16)] ^= (uint8_t)(1u << s.below(8)); }
    return; }
  if (s.flag()) { struct sockaddr_in *in = (struct sockaddr_in *)ss; in->sin_family = AF_INET; in->sin_port = s.u16(); uint32_t a = (uint32_t)s.boundary(32); memcpy(&in->sin_addr, &a, 4); }
  else { struct sockaddr_in6 *in6 = (struct sockaddr_in6 *)ss; in6->sin6_family = AF_INET6; in6->sin6_port = s.u16(); for (int i = 0; i < 16; i++) in6->sin6_addr.s6_addr[i] = s.chance(1, 2) ? 0 : s.byte(); }
}
static bool sa_equal(const struct sockaddr_storage *a, const struct sockaddr_storage *b, int port) {
  if (a->ss_family != b->ss_family) return false;
  if (a->ss_family == AF_INET) { auto *x = (const struct sockaddr_in *)a, *y = (const struct sockaddr_in *)b; return x->sin_addr.s_addr == y->sin_addr.s_addr && (!port || x->sin_port == y->sin_port); }
  auto *x = (const struct sockaddr_in6 *)a, *y = (const struct sockaddr_in6 *)b; return !memcmp(&x->sin6_addr, &y->sin6_addr, 16) && (!port || x->sin6_port == y->sin6_port);
}

extern "C" int LLVMFuzzerTestOneInput(const uint8_t *data, size_t size) {
  sim_reset();
  verif_case_begin("C41");
  Src s(data, size);
  static bool did_all; if (!did_all) { ctype_all(); did_all = true; verif_class("ctype_all_256"); }
  int nontrivial = 0;
  switch (s.below(5)) {
  case 0: { // strcasecmp / strncasecmp
    verif_class("casecmp");
    std::string a = gen_str(s, 12), b = related(s, a), c = related(s, b);
    bool def; int ref = ref_casecmp(a, b, (size_t)-1 >> 1, &def);
    int r1 = sgn(evutil_ascii_strcasecmp(a.c_str(), b.c_str())), r2 = sgn(evutil_ascii_strcasecmp(b.c_str(), a.c_str()));
    TR("strcasecmp(\"%s\",\"%s\") -> %d (ref %d, ascii-defined %d)", esc(a).c_str(), esc(b).c_str(), r1, ref, def);
    CHECK((r1 == 0) == (ref == 0), "C41/casecmp-zero", "equality under ASCII folding: got %d ref %d", r1, ref);
    CHECK(r1 == -r2, "C41/casecmp-antisym", "cmp(a,b)=%d cmp(b,a)=%d", r1, r2);
    if (def) CHECK(r1 == ref, "C41/casecmp-sign", "got %d ref %d", r1, ref);
    // transitivity of the induced order on a triple
    int ab = r1, bc = sgn(evutil_ascii_strcasecmp(b.c_str(), c.c_str())), ac = sgn(evutil_ascii_strcasecmp(a.c_str(), c.c_str()));
    if (ab <= 0 && bc <= 0) CHECK(ac <= 0, "C41/casecmp-trans", "a<=b<=c but a>c"); if (ab >= 0 && bc >= 0) CHECK(ac >= 0, "C41/casecmp-trans", "a>=b>=c but a<c");
    if (ab == 0 && bc == 0) CHECK(ac == 0, "C41/casecmp-trans", "a==b==c but a!=c");
    size_t n = s.below(16);
    int refn = ref_casecmp(a, b, n, &def);
    int rn = sgn(evutil_ascii_strncasecmp(a.c_str(), b.c_str(), n));
    TR("strncasecmp(n=%zu) -> %d (ref %d)", n, rn, refn);
    CHECK((rn == 0) == (refn == 0), "C41/ncasecmp-zero", "n=%zu got %d ref %d", n, rn, refn);
    if (def) CHECK(rn == refn, "C41/ncasecmp-sign", "n=%zu got %d ref %d", n, rn, refn);
    CHECK(rn == -sgn(evutil_ascii_strncasecmp(b.c_str(), a.c_str(), n)), "C41/ncasecmp-antisym", "n=%zu", n);
    nontrivial = a.size() >= 2 && a != b;
    break; }
  case 1: { // strcasestr
    verif_class("casestr");
    std::string h = gen_str(s, 20), nd;
    if (!h.empty() && s.chance(3, 4)) { size_t st = s.below((uint32_t)h.size()); size_t ln = 1 + s.below((uint32_t)(h.size() - st)); nd = related(s, h.substr(st, ln)); }
    else nd = gen_str(s, 4);
    const char *got = evutil_ascii_strcasestr(h.c_str(), nd.c_str());
    long ref = -1;
    if (nd.empty()) ref = 0;
    else for (size_t i = 0; i + nd.size() <= h.size(); i++) { bool m = true; for (size_t j = 0; j < nd.size(); j++) if (ref_lower((unsigned char)h[i + j]) != ref_lower((unsigned char)nd[j])) { m = false; break; } if (m) { ref = (long)i; break; } }
    long g = got ? (long)(got - h.c_str()) : -1;
    TR("strcasestr(\"%s\",\"%s\") -> %ld (ref %ld)", esc(h).c_str(), esc(nd).c_str(), g, ref);
    CHECK(g == ref, "C41/casestr", "got offset %ld, reference leftmost match %ld", g, ref);
    nontrivial = ref > 0;
    break; }
  case 2: { // rtrim_lws
    verif_class("rtrim");
    std::string a = gen_str(s, 10); size_t k = s.below(5); for (size_t i = 0; i < k; i++) a.push_back(s.flag() ? ' ' : '\t');
    if (s.chance(1, 6)) a.push_back(s.pick((const char[]){'\r', '\n', '\v', '\f', 'x'}));
    std::string ref = a; while (!ref.empty() && (ref.back() == ' ' || ref.back() == '\t')) ref.pop_back();
    std::vector<char> buf(a.size() + 3, (char)0x5a); memcpy(buf.data() + 1, a.c_str(), a.size() + 1);
    evutil_rtrim_lws_(buf.data() + 1);
    TR("rtrim_lws(\"%s\") -> \"%s\"", esc(a).c_str(), esc(std::string(buf.data() + 1)).c_str());
    CHECK(std::string(buf.data() + 1) == ref, "C41/rtrim", "got \"%s\" want \"%s\"", esc(std::string(buf.data() + 1)).c_str(), esc(ref).c_str());
    CHECK(buf[0] == 0x5a && buf[a.size() + 2] == 0x5a, "C41/rtrim-guard", "guard byte modified");
    // bytes before the new terminator are untouched
    CHECK(!memcmp(buf.data() + 1, a.data(), ref.size()), "C41/rtrim", "kept prefix modified");
    nontrivial = ref.size() != a.size() && !ref.empty();
    break; }
  case 3: { // evutil_snprintf vs libc
    verif_class("snprintf");
    std::string str = gen_str(s, 24); for (auto &c : str) if (c == '%') c = 'p';
    long num = (long)s.boundary(63) * (s.flag() ? -1 : 1);
    size_t buflen = s.below(48);
    char ref[256]; int rr = snprintf(ref, sizeof ref, "%s|%ld|%x", str.c_str(), num, (unsigned)num);
    std::vector<char> buf(buflen + 2, (char)0x5a);
    int r = evutil_snprintf(buf.data() + 1, buflen, "%s|%ld|%x", str.c_str(), num, (unsigned)num);
    TR("snprintf(buflen=%zu, \"%s\",%ld) -> %d (libc %d)", buflen, esc(str).c_str(), num, r, rr);
    CHECK(buf[0] == 0x5a && buf[buflen + 1] == 0x5a, "C41/snprintf-guard", "wrote outside the buffer (buflen=%zu)", buflen);
    if (buflen == 0) { CHECK(r == 0 || r == rr, "C41/snprintf-ret", "buflen 0 returned %d", r); }
    else {
      CHECK(r == rr, "C41/snprintf-ret", "returned %d, C99 result %d", r, rr);
      size_t want = (size_t)rr < buflen ? (size_t)rr : buflen - 1;
      CHECK(buf[1 + want] == 0, "C41/snprintf-nul", "not NUL-terminated at %zu", want);
      CHECK(!memcmp(buf.data() + 1, ref, want), "C41/snprintf-content", "content differs");
    }
    nontrivial = buflen > 0 && (size_t)rr + 1 >= buflen && (size_t)rr <= buflen + 1;
    break; }
  default: { // sockaddr_cmp
    verif_class("sockaddr_cmp");
    struct sockaddr_storage a, b, c; fill_sa(s, &a, NULL); fill_sa(s, &b, &a); fill_sa(s, &c, &b);
    int port = s.flag();
    auto cmp = [&](sockaddr_storage &x, sockaddr_storage &y) { return sgn(evutil_sockaddr_cmp((struct sockaddr *)&x, (struct sockaddr *)&y, port)); };
    int ab = cmp(a, b), ba = cmp(b, a), bc = cmp(b, c), ac = cmp(a, c);
    TR("sockaddr_cmp fam %d/%d/%d port=%d -> ab=%d ba=%d bc=%d ac=%d a=%s b=%s", a.ss_family, b.ss_family, c.ss_family, port, ab, ba, bc, ac, hexs(&a, 28).c_str(), hexs(&b, 28).c_str());
    CHECK(cmp(a, a) == 0, "C41/sacmp-reflexive", "cmp(a,a) != 0");
    CHECK(ab == -ba, "C41/sacmp-antisym", "cmp(a,b)=%d cmp(b,a)=%d", ab, ba);
    CHECK((ab == 0) == sa_equal(&a, &b, port), "C41/sacmp-equal", "cmp=%d but equal=%d (port=%d)", ab, sa_equal(&a, &b, port), port);
    if (ab <= 0 && bc <= 0) CHECK(ac <= 0, "C41/sacmp-trans", "a<=b<=c but a>c");
    if (ab >= 0 && bc >= 0) CHECK(ac >= 0, "C41/sacmp-trans", "a>=b>=c but a<c");
    nontrivial = a.ss_family == b.ss_family && memcmp(&a, &b, sizeof a) != 0;
    break; }
  }
  verif_case_end(nontrivial, s.h);
  return 0;
}
