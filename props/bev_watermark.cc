// C18 — read/write watermarks are honoured.
// World, generator and monitors: props/bev_world.hh (monitor "18").
#include "bev_world.hh"
extern "C" int LLVMFuzzerInitialize(int *, char ***) { bevw::process_init(); return 0; }
extern "C" int LLVMFuzzerTestOneInput(const uint8_t *data, size_t size) { return bevw::run_case(data, size, 18); }
