// Shared HTTP *client* world for C24 / C27 (header only; .hh files are not targets).
//
// One world per run: an event_base under the harness virtual clock, one evhttp_connection, and the harness playing the
// server.  Two transports:
//   * socketpair: evhttp_connection_base_bufferevent_reuse_new() on one end (documented: "a fd is already set on the
//     bufferevent, it will be assumed that this connection is already open"); a reconnect is impossible (no address) and
//     fails synchronously, which the harness treats as "connection refused";
//   * AF_UNIX path listener owned by the harness: evhttp_connection_base_bufferevent_unix_new(); every connect() of the
//     client lands in the harness' listen queue and is accepted / refused / reset by the harness;
//   * TCP loopback listener owned by the harness (127.0.0.1, explicit port): evhttp_connection_base_new(base, NULL, "127.0.0.1", port),
//     i.e. the hostname-connect path without a dns_base (lookup + socket() + connect() run synchronously inside the connect call).
// The harness reads request bytes, writes generated response bytes in generated segments and runs
// event_base_loop(EVLOOP_NONBLOCK) to quiescence in between.  Time only moves when the harness says so.
//
// Preconditions respected: requests are created with evhttp_request_new(), filled through the public accessors and
// handed over with evhttp_make_request() (ownership moves to the connection); a request is never touched after its
// completion callback returned (unless evhttp_request_own() was used); evhttp_cancel_request() only on requests whose
// callback has not run; the connection is freed before the base.
#pragma once
#include <sys/queue.h>
#include "verif.h"
#include "sim.h"
#include <event2/event.h>
#include <event2/http.h>
#include <event2/http_struct.h>
#include <event2/buffer.h>
#include <event2/bufferevent.h>
#include <event2/keyvalq_struct.h>
#include <sys/socket.h>
#include <sys/un.h>
#include <netinet/in.h>
#include <netinet/tcp.h>
#include <arpa/inet.h>
#include <unistd.h>
#include <errno.h>
#include <fcntl.h>
#include <string>
#include <vector>
#include <utility>

namespace hc {

struct World;
struct ReqRec {
  World *w = nullptr; int idx = 0;
  struct evhttp_request *req = nullptr;   // valid until the completion callback ran / the request was cancelled / the connection was freed
  int cb_calls = 0, err_calls = 0, chunk_calls = 0, hdr_calls = 0; int last_err = -1;
  bool success = false;       // completion callback got a request object carrying a response (status != 0)
  bool got_null = false;      // completion callback got NULL
  bool cancelled = false, abandoned = false;   // abandoned: connection freed by the user while the request was queued
  int code = 0, major = 0, minor = 0; std::string reason;
  std::vector<std::pair<std::string, std::string>> headers; std::string body;
  uint64_t order = 0;         // global sequence number of the completion callback
  bool err_before_cb = false; // error callback ran before the completion callback (documented order)
};

struct World {
  struct event_base *base = nullptr;
  struct evhttp_connection *evcon = nullptr;
  int sfd = -1;                         // harness (server) end of the current connection
  int lfd = -1; struct sockaddr_un laddr; socklen_t lalen = 0; std::string lpath;   // listener transport
  std::string req_in;                   // request bytes received on the current connection
  size_t req_in_total = 0;
  bool client_closed = false;           // EOF / error seen while reading from the client
  bool write_failed = false;
  int last_nready = 0;
  int backend = 0;
  std::vector<ReqRec *> recs;
  uint64_t cb_seq = 0; uint64_t passes = 0;
  int closecb_calls = 0;
  int64_t live0 = 0; int fd_lo = 0; uint64_t fd_mask0 = 0;
  void (*on_complete)(World *, ReqRec *, struct evhttp_request *) = nullptr;   // extra action inside the completion callback (C27)
  void (*on_error)(World *, ReqRec *, int) = nullptr;
  void *user = nullptr;
  const char *prop = "C24";

  static int64_t wait_hook(const struct sim_wait_info *wi, void *arg) {
    World *w = (World *)arg;
    w->last_nready = wi->nready;
    if (wi->nready == 0 && wi->timeout_us < 0) { if (w->base) event_base_loopbreak(w->base); return 0; }
    if (wi->nready > 0) return 20;
    return 0;          // a finite wait with nothing ready: EVLOOP_NONBLOCK never sleeps; time moves only through advance()
  }

  static void done_cb(struct evhttp_request *req, void *arg) {
    ReqRec *r = (ReqRec *)arg; World *w = r->w;
    r->cb_calls++; r->order = ++w->cb_seq;
    if (r->cb_calls == 1) {
      if (!req) r->got_null = true;
      else {
        r->code = evhttp_request_get_response_code(req);
        const char *l = evhttp_request_get_response_code_line(req); r->reason = l ? l : "";
        r->major = req->major; r->minor = req->minor;
        struct evkeyvalq *h = evhttp_request_get_input_headers(req); struct evkeyval *kv;
        TAILQ_FOREACH(kv, h, next) r->headers.push_back({kv->key, kv->value});
        struct evbuffer *b = evhttp_request_get_input_buffer(req); size_t n = evbuffer_get_length(b);
        r->body.resize(n); if (n) evbuffer_copyout(b, &r->body[0], n);
        r->success = r->code != 0;
      }
    }
    TR("    -> completion#%d calls=%d %s code=%d '%s' headers=%zu body=%zu '%s'", r->idx, r->cb_calls, req ? "req" : "NULL", r->code, esc(r->reason, 40).c_str(), r->headers.size(), r->body.size(), esc(r->body, 60).c_str());
    r->req = nullptr;
    if (w->on_complete) w->on_complete(w, r, req);
  }
  static void err_cb(enum evhttp_request_error e, void *arg) {
    ReqRec *r = (ReqRec *)arg; r->err_calls++; r->last_err = (int)e; if (r->cb_calls == 0) r->err_before_cb = true;
    TR("    -> error#%d %d (calls=%d)", r->idx, (int)e, r->err_calls);
    if (r->w->on_error) r->w->on_error(r->w, r, (int)e);
  }
  static void close_cb(struct evhttp_connection *, void *arg) { ((World *)arg)->closecb_calls++; }

  uint64_t fd_mask() const { uint64_t m = 0; for (int i = 0; i < 24; i++) if (fcntl(fd_lo + i, F_GETFD) != -1) m |= 1ull << i; return m; }

  bool open_base() {
    live0 = sim_mem_live_blocks;
    { int p = dup(0); fd_lo = p; if (p >= 0) close(p); fd_mask0 = fd_mask(); }
    sim_clock_enable(SIM_START_US);
    sim_set_wait_hook(wait_hook, this);
    struct event_config *cfg = event_config_new();
    if (backend == 0) { event_config_avoid_method(cfg, "epoll"); }
    else if (backend == 2) { event_config_avoid_method(cfg, "epoll"); event_config_avoid_method(cfg, "poll"); }
    base = event_base_new_with_config(cfg); event_config_free(cfg);
    return base != nullptr;
  }
  // transport 1: socketpair
  bool open_pair() {
    int sv[2];
    if (socketpair(AF_UNIX, SOCK_STREAM | SOCK_NONBLOCK | SOCK_CLOEXEC, 0, sv) != 0) VERIF_FAIL("harness/socketpair", "socketpair: %s", strerror(errno));
    sfd = sv[1];
    struct bufferevent *bev = bufferevent_socket_new(base, sv[0], BEV_OPT_CLOSE_ON_FREE);
    CHECK(bev != nullptr, "harness/bufferevent", "bufferevent_socket_new failed");
    evcon = evhttp_connection_base_bufferevent_reuse_new(base, NULL, bev);
    CHECK(evcon != nullptr, "harness/evcon", "evhttp_connection_base_bufferevent_reuse_new failed");
    return true;
  }
  // transport 2: AF_UNIX path listener
  bool open_listener() {
    char path[100]; snprintf(path, sizeof path, "/tmp/verif-hc-%d.sock", (int)getpid()); lpath = path;
    unlink(path);
    lfd = socket(AF_UNIX, SOCK_STREAM | SOCK_NONBLOCK | SOCK_CLOEXEC, 0);
    CHECK(lfd >= 0, "harness/socket", "socket: %s", strerror(errno));
    memset(&laddr, 0, sizeof laddr); laddr.sun_family = AF_UNIX; strcpy(laddr.sun_path, path); lalen = sizeof laddr;
    CHECK(bind(lfd, (struct sockaddr *)&laddr, lalen) == 0, "harness/bind", "bind %s: %s", path, strerror(errno));
    CHECK(listen(lfd, 16) == 0, "harness/listen", "listen: %s", strerror(errno));
    evcon = evhttp_connection_base_bufferevent_unix_new(base, NULL, path);
    CHECK(evcon != nullptr, "harness/evcon", "evhttp_connection_base_bufferevent_unix_new failed");
    return true;
  }
  // transport 3: TCP listener on 127.0.0.1.  The port is chosen by the harness below the ephemeral range, one per process (derived from the
  // pid; SO_REUSEADDR so that TIME_WAIT leftovers of earlier runs do not block it) and bound explicitly, so tcp_unlisten()
  // (shutdown(SHUT_RD): the socket stops listening, connects get RST = ECONNREFUSED) keeps the port and tcp_relisten() listens on it again.
  int lport = 0;
  bool open_tcp_listener() {
    struct sockaddr_in a; memset(&a, 0, sizeof a); a.sin_family = AF_INET; a.sin_addr.s_addr = htonl(INADDR_LOOPBACK);
    bool ok = false;
    for (unsigned i = 0; i < 50 && !ok; i++) {
      lfd = socket(AF_INET, SOCK_STREAM | SOCK_NONBLOCK | SOCK_CLOEXEC, 0);
      CHECK(lfd >= 0, "harness/socket", "socket: %s", strerror(errno));
      int one = 1; setsockopt(lfd, SOL_SOCKET, SO_REUSEADDR, &one, sizeof one);
      lport = 10000 + (int)(((unsigned)getpid() + i * 7919u) % 22000u); a.sin_port = htons((uint16_t)lport);
      if (bind(lfd, (struct sockaddr *)&a, sizeof a) == 0 && listen(lfd, 16) == 0) { ok = true; break; }
      close(lfd); lfd = -1;
    }
    CHECK(ok, "harness/bind", "no free loopback port found: %s", strerror(errno));
    evcon = evhttp_connection_base_new(base, NULL, "127.0.0.1", (ev_uint16_t)lport);
    CHECK(evcon != nullptr, "harness/evcon", "evhttp_connection_base_new failed");
    return true;
  }
  void tcp_unlisten() { if (lfd >= 0) shutdown(lfd, SHUT_RD); }
  void tcp_relisten() { CHECK(lfd >= 0 && listen(lfd, 16) == 0, "harness/listen", "re-listen on 127.0.0.1:%d: %s", lport, strerror(errno)); }
  void stop_listening() { if (lfd >= 0) { close(lfd); lfd = -1; } if (!lpath.empty()) unlink(lpath.c_str()); }   // later connects are refused (ENOENT/ECONNREFUSED)
  bool accept_one() {
    if (lfd < 0) return false;
    int fd = accept4(lfd, NULL, NULL, SOCK_NONBLOCK | SOCK_CLOEXEC);
    if (fd < 0) return false;
    if (sfd >= 0) close(sfd);
    sfd = fd; req_in.clear(); client_closed = false; write_failed = false;
    return true;
  }

  ReqRec *new_rec() { ReqRec *r = new ReqRec; r->w = this; r->idx = (int)recs.size(); recs.push_back(r); return r; }

  bool stop = false;                    // set from a callback together with event_base_loopbreak(): the harness stops driving the loop at once
  void pump() {
    for (int i = 0; i < 300; i++) {
      if (stop) return;
      last_nready = 0;
      int r = event_base_loop(base, EVLOOP_NONBLOCK);
      passes++;
      CHECK(r >= 0, "harness/loop-error", "event_base_loop=%d", r);
      if (stop) return;
      drain();
      if (last_nready == 0 && event_base_get_num_events(base, EVENT_BASE_COUNT_ACTIVE) == 0) return;
    }
    VERIF_FAIL("harness/pump-spin", "loop not quiescent after 300 passes");
  }
  void advance(int64_t us) { sim_advance_us(us); pump(); }
  // read whatever the client wrote
  void drain() {
    if (sfd < 0 || client_closed) return;
    char buf[4096];
    for (;;) {
      ssize_t n = recv(sfd, buf, sizeof buf, MSG_DONTWAIT);
      if (n > 0) { req_in.append(buf, (size_t)n); req_in_total += (size_t)n; continue; }
      if (n == 0) { client_closed = true; break; }
      if (errno == EAGAIN || errno == EWOULDBLOCK) break;
      if (errno == EINTR) continue;
      client_closed = true; break;
    }
  }
  void send_raw(const char *p, size_t n) {
    while (n && !write_failed && sfd >= 0) {
      ssize_t k = send(sfd, p, n, MSG_NOSIGNAL | MSG_DONTWAIT);
      if (k > 0) { p += k; n -= (size_t)k; continue; }
      if (k < 0 && errno == EINTR) continue;
      if (k < 0 && (errno == EAGAIN || errno == EWOULDBLOCK)) { pump(); if (client_closed) write_failed = true; continue; }
      write_failed = true;
    }
  }
  void send_segment(const char *p, size_t n) { send_raw(p, n); pump(); }
  void close_server(bool do_pump = true) { if (sfd >= 0) { close(sfd); sfd = -1; } if (do_pump) pump(); }
  void half_close_server() { if (sfd >= 0) shutdown(sfd, SHUT_WR); pump(); }

  void close_world() {
    if (evcon) { for (ReqRec *r : recs) if (r->req && r->cb_calls == 0 && !r->cancelled) { r->abandoned = true; r->req = nullptr; } evhttp_connection_free(evcon); evcon = nullptr; }
    if (sfd >= 0) { close(sfd); sfd = -1; }
    stop_listening();
    if (base) { event_base_free(base); base = nullptr; }
    for (ReqRec *r : recs) delete r; recs.clear();
  }
  void check_no_leak(const char *key_leak, const char *key_fd) {
    CHECK(sim_mem_live_blocks == live0, key_leak, "library allocations outstanding after teardown: %lld", (long long)(sim_mem_live_blocks - live0));
    uint64_t now = fd_mask();
    CHECK(now == fd_mask0, key_fd, "descriptor table differs before/after the run (from fd %d: before %llx after %llx)", fd_lo, (unsigned long long)fd_mask0, (unsigned long long)now);
  }
};

static inline const char *cmd_name(int t) {
  switch (t) {
    case EVHTTP_REQ_GET: return "GET"; case EVHTTP_REQ_POST: return "POST"; case EVHTTP_REQ_HEAD: return "HEAD";
    case EVHTTP_REQ_PUT: return "PUT"; case EVHTTP_REQ_DELETE: return "DELETE"; case EVHTTP_REQ_OPTIONS: return "OPTIONS";
    case EVHTTP_REQ_TRACE: return "TRACE"; case EVHTTP_REQ_CONNECT: return "CONNECT"; case EVHTTP_REQ_PATCH: return "PATCH";
    default: return "?";
  }
}

}  // namespace hc
