// C34 — every DNS request reports its outcome exactly once, whatever the nameservers do.
// History: up to 20 requests (resolve_ipv4/ipv6/reverse with NO_SEARCH/USEVC/IGNTC flags, evdns_getaddrinfo), issued one by one or in
// bursts of 2-12, on an evdns_base with 1-3 fake nameservers, max-inflight 1-12 (in-flight table of 1-3 hash buckets; a burst overflows
// it into the waiting queue; the limit can also be changed while requests are outstanding), generated timeout/attempts/max-timeouts and a search list;
// per query the fake servers drop, answer, answer late, or send NXDOMAIN / SERVFAIL / REFUSED / NOTIMPL / TC / garbage;
// TCP connections are answered, cut after k bytes or closed; requests are cancelled from top level and from inside
// callbacks; callbacks issue new requests; the base is freed (fail_requests 0/1) at top level or inside a callback, or
// the servers fall silent and virtual time runs until every request has timed out.
// Preconditions respected: a request is cancelled only while its callback has not run and the base is alive; no evdns
// call after evdns_base_free; the loop is run once after evdns_base_free so that deferred callbacks are delivered.
#include "dns_common.hh"
#include <map>
#include <set>
using namespace dnsw;

namespace {
#ifndef C34_MAXREQ
#define C34_MAXREQ 20
#endif
#ifndef C34_BURST
#define C34_BURST 12
#endif
const int MAXREQ = C34_MAXREQ;   // 20 requests = at most 40 resolver-level requests (getaddrinfo PF_UNSPEC asks twice): below the default limit of 64
// max-inflight 1-12: 1-5 give a one-bucket in-flight table (n_req_heads = ceil(max/5)), 6-10 two buckets, 11-12 three; a burst of requests
// overflows any of them, so that the waiting queue is populated next to a multi-bucket table
const int NMAXINF = 12;
enum { K_A = 0, K_AAAA = 1, K_PTR = 2, K_GAI = 3 };
struct Ctx;
struct R { Ctx *cx = nullptr; int idx = 0; int kind = 0; struct evdns_request *h = nullptr; struct evdns_getaddrinfo_request *g = nullptr; bool issued = false;
  int cb = 0; int result = -1; bool cancel_called = false; bool tcp = false; int family = 0;
  int cur_id[2] = {-1, -1};    // latest transaction ID seen for this request's A/PTR (0) and AAAA (1) question
  bool live() const { return issued && cb == 0; } };
struct Delayed { bool tcp; int ns; struct sockaddr_in to; int conn; std::vector<uint8_t> bytes; };
struct Item { bool tcp; int ns; int conn; struct sockaddr_in from; std::vector<uint8_t> data; int epoch; };
struct Ctx {
  Src *s; World *w; R r[MAXREQ]; int nreq = 0; bool base_freed = false; int freed_fail = -1; bool freed_in_cb = false; bool gai_pending_at_free0 = false;
  int cb_depth = 0; std::vector<Delayed> delayed; bool k_rt_uaf = false, k_gai_leak = false, k_probe_uaf = false, k_gai_uaf = false, k_stall = false; bool ns_may_have_failed = false; bool closing = false; int maxinf = 0; bool followup_possible = false;
  int n_timeouts = 0, n_tcp = 0, n_cancel = 0, n_incb = 0, n_retrans = 0, n_late = 0, n_search = 0, n_failover = 0;
  std::set<int> touched; std::map<int, std::vector<int> > conn_ids;   // IDs the fake servers have reacted to (a reply of any kind, or closing the TCP connection that carried them): their requests may be over
  std::vector<Item> pending; int epoch = 0;   // queries read from the fake servers but not served yet; epoch = which collect() saw them
  int ndom = 0, n_burst = 0, n_relimit = 0, live_at_free = -1, maxinf_at_free = 0;
};
Ctx *CX;

void issue(Ctx &cx, bool in_cb);
void free_base(Ctx &cx, int fail, bool in_cb) {
  World &w = *cx.w; if (!w.dns) return;
  bool gai_live = false; for (int i = 0; i < cx.nreq; i++) if (cx.r[i].kind == K_GAI && cx.r[i].live() && cx.r[i].g) gai_live = true;
  bool gai_any = false; for (int i = 0; i < cx.nreq; i++) if (cx.r[i].kind == K_GAI && cx.r[i].issued) gai_any = true;
  if (gai_any && cx.k_gai_uaf) {   // known finding: a getaddrinfo sub-request callback that is already scheduled when the base goes away
    verif_known_skipped("asan:heap-use-after-free@evdns_getaddrinfo_gotresolve");
    if (in_cb) return;
    w.turn(); if (!w.dns) return;
    gai_live = false; for (int i = 0; i < cx.nreq; i++) if (cx.r[i].kind == K_GAI && cx.r[i].live() && cx.r[i].g) gai_live = true;
  }
  bool probe_risk = cx.k_probe_uaf && cx.ns_may_have_failed;   // known finding: a pending nameserver probe + fail_requests=1
  if (probe_risk) {   // a probe callback may already be scheduled: never free from inside a callback, flush first
    if (in_cb) { verif_known_skipped("asan:heap-use-after-free@nameserver_probe_callback"); return; }
    w.turn(); if (!w.dns) return;
    gai_live = false; for (int i = 0; i < cx.nreq; i++) if (cx.r[i].kind == K_GAI && cx.r[i].live() && cx.r[i].g) gai_live = true;
  }
  if (probe_risk && gai_live && cx.k_gai_leak) {                // both known findings in the way: get the getaddrinfo requests out first
    if (in_cb) return;
    for (int i = 0; i < cx.nreq; i++) if (cx.r[i].kind == K_GAI && cx.r[i].live() && cx.r[i].g && !cx.r[i].cancel_called) { evdns_getaddrinfo_cancel(cx.r[i].g); cx.r[i].cancel_called = true; }
    w.turn(); if (!w.dns) return;
    gai_live = false; for (int i = 0; i < cx.nreq; i++) if (cx.r[i].kind == K_GAI && cx.r[i].live() && cx.r[i].g) gai_live = true;
    if (gai_live) return;
  }
  if (probe_risk && fail) { verif_known_skipped("asan:heap-use-after-free@nameserver_probe_callback"); fail = 0; }
  else if (gai_live && !fail && cx.k_gai_leak) { verif_known_skipped("C34/leak-getaddrinfo-base-free"); fail = 1; }   // known finding: keep away from it by construction
  if (gai_live && !fail) cx.gai_pending_at_free0 = true;
  { int live = 0; for (int i = 0; i < cx.nreq; i++) if (cx.r[i].live()) live++; cx.live_at_free = live; cx.maxinf_at_free = cx.maxinf; }
  TR("%sevdns_base_free(fail_requests=%d)", in_cb ? "    in-cb " : "", fail);
  w.close_dns(fail); cx.base_freed = true; cx.freed_fail = fail; cx.freed_in_cb = in_cb;
}
void cancel(Ctx &cx, int i, bool in_cb) {
  R &r = cx.r[i]; if (!cx.w->dns || !r.live() || r.cancel_called) return;
  TR("%scancel r%d", in_cb ? "    in-cb " : "", i);
  if (r.kind == K_GAI) { if (r.g) evdns_getaddrinfo_cancel(r.g); } else if (r.h) evdns_cancel_request(cx.w->dns, r.h);
  r.cancel_called = true; cx.n_cancel++;
}
void in_callback_action(Ctx &cx, int self) {
  if (cx.cb_depth > 1 || cx.closing) return;
  Src &s = *cx.s; int a = s.below(10);
  if (a < 6) return;
  cx.n_incb++;
  if (a == 6) { int j = s.below(MAXREQ); if (j != self && j < cx.nreq) cancel(cx, j, true); }
  else if (a == 7 || a == 8) { if (cx.w->dns) issue(cx, true); }
  else if (a == 9) free_base(cx, s.below(2), true);
}
void on_done(R *r, int result) {
  Ctx &cx = *r->cx; r->cb++; r->result = result;
  TR("  callback r%d result=%d (count now %d)", r->idx, result, r->cb);
  CHECK(r->cb == 1, "C34/callback-twice", "request r%d (kind %d) got its callback %d times (result now %d)", r->idx, r->kind, r->cb, result);
  CHECK(r->issued, "C34/callback-unissued", "callback for r%d, which the resolve call reported as failed (NULL)", r->idx);
  if (cx.base_freed && cx.freed_fail == 0 && !cx.freed_in_cb) { /* a callback that was already scheduled before the free may still be delivered */ }
  cx.cb_depth++; in_callback_action(cx, r->idx); cx.cb_depth--;
}
void resolve_cb(int result, char type, int count, int ttl, void *addrs, void *arg) { (void)type; (void)count; (void)ttl; (void)addrs; on_done((R *)arg, result); }
void gai_cb(int err, struct evutil_addrinfo *res, void *arg) { if (res) evutil_freeaddrinfo(res); on_done((R *)arg, err); }

// kind/fsel/family < 0: draw them (one request); >= 0: given by the caller (burst: many requests of one shape from three draws)
void issue_as(Ctx &cx, bool in_cb, int kind, int fsel, int family) {
  if (cx.nreq >= MAXREQ || !cx.w->dns) return;
  Src &s = *cx.s; World &w = *cx.w; int i = cx.nreq++; R &r = cx.r[i]; r.cx = &cx; r.idx = i; r.kind = kind >= 0 ? kind : (int)s.below(4);
  int fl = 0; if (fsel < 0) fsel = s.below(6);
  bool other_tcp = false; for (int k = 0; k < i; k++) if (cx.r[k].live() && cx.r[k].tcp) other_tcp = true;
  if (cx.k_rt_uaf && (fsel == 2 || fsel == 3) && other_tcp) { verif_known_skipped("asan:heap-use-after-free@retransmit_all_tcp_requests_for"); fsel = 0; }   // known finding: two TCP requests timing out on one nameserver
  if (fsel == 1) fl |= DNS_QUERY_NO_SEARCH; if (fsel == 2 || fsel == 3) { fl |= DNS_QUERY_USEVC; r.tcp = true; } if (fsel == 4) fl |= DNS_QUERY_IGNTC;
  char name[32]; snprintf(name, sizeof name, "r%d.test", i);
  r.issued = true;   // set before the call: an immediate callback must see a consistent record
  if (r.kind == K_A) r.h = evdns_base_resolve_ipv4(w.dns, name, fl, resolve_cb, &r);
  else if (r.kind == K_AAAA) r.h = evdns_base_resolve_ipv6(w.dns, name, fl, resolve_cb, &r);
  else if (r.kind == K_PTR) { struct in_addr in; in.s_addr = htonl(0x0a000000u + (unsigned)i); snprintf(name, sizeof name, "%d.0.0.10.in-addr.arpa", i); r.h = evdns_base_resolve_reverse(w.dns, &in, fl, resolve_cb, &r); }
  else { struct evutil_addrinfo hints; memset(&hints, 0, sizeof hints); r.family = family >= 0 ? family : (int)s.below(3); hints.ai_family = r.family == 0 ? PF_UNSPEC : r.family == 1 ? PF_INET : PF_INET6; hints.ai_socktype = SOCK_STREAM;
    r.g = evdns_getaddrinfo(w.dns, name, "80", &hints, gai_cb, &r); }
  bool ok = r.kind == K_GAI ? (r.g != nullptr || r.cb == 1) : r.h != nullptr;
  TR("%sissue r%d kind=%d flags=0x%x -> %s", in_cb ? "    in-cb " : "", i, r.kind, fl, ok ? "ok" : "NULL");
  if (!ok) { CHECK(r.cb == 0, "C34/callback-and-null", "resolve returned NULL for r%d but its callback ran", i); r.issued = false; }
}
void issue(Ctx &cx, bool in_cb) { issue_as(cx, in_cb, -1, -1, -1); }
// 2-12 requests of one generated shape, back to back: the cheap way (4 draws) to have more requests outstanding than max-inflight allows
void burst(Ctx &cx) {
  Src &s = *cx.s; int kind = s.below(4), fsel = s.below(6), family = kind == K_GAI ? (int)s.below(3) : 0, n = 2 + (int)s.below(C34_BURST - 1);
  TR("burst of %d", n); cx.n_burst++;
  for (int k = 0; k < n && cx.w->dns && cx.nreq < MAXREQ; k++) issue_as(cx, false, kind, fsel, family);
}

// which request does a query belong to?  names are "rN.test[.domain]" / "N.0.0.10.in-addr.arpa"; probes ask for google.com
int owner_of(const Query &q) {
  if (q.name.empty()) return -1; const std::string &l = q.name[0];
  size_t p = 0; if (q.type != T_PTR) { if (l.empty() || (l[0] != 'r' && l[0] != 'R')) return -1; p = 1; }
  if (l.size() == p || l.size() > p + 2 || (l.size() == p + 2 && l[p] == '0')) return -1;
  int v = 0; for (size_t k = p; k < l.size(); k++) { if (l[k] < '0' || l[k] > '9') return -1; v = v * 10 + (l[k] - '0'); }
  return v < MAXREQ ? v : -1;
}
void check_ids(Ctx &cx) {
  std::map<int, int> seen;
  for (int i = 0; i < cx.nreq; i++) { R &r = cx.r[i]; if (!r.live() || r.cancel_called) continue;
    for (int k = 0; k < 2; k++) { if (r.cur_id[k] < 0) continue; int key = r.cur_id[k];
      auto it = seen.find(key); if (it != seen.end() && it->second != i * 2 + k) { int o = it->second / 2;
        VERIF_FAIL("C34/duplicate-transaction-id", "in-flight requests r%d and r%d both use transaction ID 0x%04x", o, i, key); }
      seen[key] = i * 2 + k; } }
}
std::vector<uint8_t> make_reply(Src &s, const std::vector<uint8_t> &query, const Query &q, int act) {
  uint8_t a4[4] = {192, 0, 2, 9}, a16[16] = {0x20, 1, 0xd, 0xb8, 0, 0, 0, 0, 0, 0, 0, 0, 0, 0, 0, 9};
  if (act == 0) { Builder b = reply_header_echo(query, F_QR | F_RD | F_RA, 1); if (q.type == T_A) add_a(b, 60, a4); else if (q.type == T_AAAA) add_aaaa(b, 60, a16); else add_ptr(b, 60, Labels{"h", "test"}); return b.b; }
  if (act == 7) { Builder b; b.header(q.id, F_QR | F_RD | F_RA, 1, 3, 0, 0); int n = s.below(20); for (int k = 0; k < n; k++) b.u8(s.byte()); return b.b; }   // garbage behind a matching header
  uint16_t fl = F_QR | F_RD | F_RA; if (act == 1) fl |= 3; else if (act == 3) fl |= 2; else if (act == 4) fl |= 5; else if (act == 5) fl |= 4; else if (act == 6) fl |= F_TC;
  return reply_header_echo(query, fl, 0).b;
}
// read what the fake servers have received so far (without acting on it yet) and start a new epoch.  Called by serve() and before every
// step at which the resolver can be told something that ends a request (time passing, late replies): a transaction ID is free again as
// soon as its request is done, so only queries read by the same collect() are known to have been outstanding together.
void collect(Ctx &cx) {
  World &w = *cx.w; std::vector<Item> &items = cx.pending;
  for (int k = 0; k < w.nns; k++) { Datagram d; while (udp_recv(k, &d)) { Item it; it.tcp = false; it.ns = k; it.conn = -1; it.from = d.from; it.data = d.data; it.epoch = cx.epoch; items.push_back(it); } }
  w.tcp_poll();
  for (size_t c = 0; c < w.conns.size(); c++) { std::vector<uint8_t> m; while (w.conns[c].fd >= 0 && World::tcp_pop(w.conns[c], &m)) { Item it; it.tcp = true; it.ns = w.conns[c].ns; it.conn = (int)c; memset(&it.from, 0, sizeof it.from); it.data = m; it.epoch = cx.epoch; items.push_back(it); cx.n_tcp++; } }
  cx.epoch++;
}
// act on everything the fake servers received
int serve(Ctx &cx, bool silent) {
  World &w = *cx.w; Src &s = *cx.s; int handled = 0;
  collect(cx); std::vector<Item> items; items.swap(cx.pending);
  std::vector<Query> qs;
  for (auto &it : items) { Query q = decode_query_strict(it.data.data(), it.data.size());
    CHECK(q.ok, "C34/malformed-query", "query does not decode: %s", q.why);
    int o = owner_of(q); TR("  ns%d %s query id=%04x %s type=%u -> r%d", it.ns, it.tcp ? "TCP" : "UDP", q.id, esc(join(q.name), 40).c_str(), q.type, o);
    if (o >= 0 && o < cx.nreq) { R &r = cx.r[o]; int slot = q.type == T_AAAA && r.kind == K_GAI ? 1 : 0;
      if (r.cur_id[slot] == q.id) cx.n_retrans++; r.cur_id[slot] = q.id;
      if (q.name.size() > 2 && q.type != T_PTR) cx.n_search++;
      if (!cx.base_freed) CHECK(r.issued, "C34/query-for-failed-request", "query for r%d whose resolve call returned NULL", o); }
    qs.push_back(q); }
  // transaction IDs: two different live requests whose queries were read by the same collect() (i.e. both were transmitted with no
  // time step in between) must not carry the same ID, unless the fake servers have ever reacted to that ID.  (Anything more would be
  // unsound: an ID is free again as soon as its request -- or one half of a getaddrinfo, or one search candidate -- is done, which the
  // fake servers cannot see; e.g. a query and its retransmission are answered REFUSED and NXDOMAIN in one batch: the resolver re-sends
  // the query, finishes it, and may hand the same ID to the next candidate of another request, all within one loop run.)
  if (!cx.base_freed) { std::map<long, int> seen;
    for (size_t n = 0; n < qs.size(); n++) { int o = owner_of(qs[n]); if (o < 0 || o >= cx.nreq) continue; R &r = cx.r[o]; if (!r.live() || r.cancel_called) continue;
      int slot = qs[n].type == T_AAAA && r.kind == K_GAI ? 1 : 0; int who = o * 2 + slot; long ek = (long)items[n].epoch * 65536 + qs[n].id; auto it2 = seen.find(ek);
      if (it2 != seen.end() && it2->second != who && !cx.touched.count(qs[n].id)) VERIF_FAIL("C34/duplicate-transaction-id", "requests r%d and r%d, both in flight, use transaction ID 0x%04x", it2->second / 2, o, qs[n].id);
      seen[ek] = who; } }
  for (size_t n = 0; n < items.size(); n++) { Item &it = items[n]; Query &q = qs[n]; handled++;
    if (silent) continue;
    int act = s.below(10);   // 0 answer 1 NXDOMAIN 2 drop 3 SERVFAIL 4 REFUSED 5 NOTIMPL 6 TC 7 garbage 8 late answer 9 answer
    if (act == 9) act = 0;
    if (act == 6 && cx.maxinf && cx.k_stall) { verif_known_skipped("C34/inflight-limit-stall"); act = 1; }
    if (act == 6) cx.followup_possible = true;
    if (act == 6 && !it.tcp) { int o = owner_of(q); bool other = false; for (int k = 0; k < cx.nreq; k++) if (k != o && cx.r[k].live() && cx.r[k].tcp) other = true;
      if (cx.k_rt_uaf && (other || o < 0 || o >= cx.nreq || cx.r[o].kind == K_GAI)) { verif_known_skipped("asan:heap-use-after-free@retransmit_all_tcp_requests_for"); act = 1; }
      else if (o >= 0 && o < cx.nreq) cx.r[o].tcp = true; }
    if (act == 4 || act == 5) cx.ns_may_have_failed = true;
    if (it.tcp) cx.conn_ids[it.conn].push_back(q.id);
    if (act == 2) { TR("    drop"); continue; }
    cx.touched.insert(q.id);
    std::vector<uint8_t> rep = make_reply(s, it.data, q, act == 8 ? 0 : act);
    if (act == 8) { Delayed d; d.tcp = it.tcp; d.ns = it.ns; d.to = it.from; d.conn = it.conn; d.bytes = rep; cx.delayed.push_back(d); TR("    answer later"); continue; }
    if (!it.tcp) { TR("    reply act=%d", act); udp_send(it.ns, it.from, rep.data(), rep.size()); }
    else { TcpConn &c = w.conns[it.conn]; int tact = s.below(6);   // 0-2 full reply, 3 partial then close, 4 close at once, 5 full reply then close
      std::vector<uint8_t> st; st.push_back((uint8_t)(rep.size() >> 8)); st.push_back((uint8_t)rep.size()); st.insert(st.end(), rep.begin(), rep.end());
      if (tact >= 3) for (int id : cx.conn_ids[it.conn]) cx.touched.insert(id);   // every request on this connection is affected by the close
      if (tact == 4) { TR("    tcp close"); w.tcp_close(c); continue; }
      size_t n2 = tact == 3 ? s.below((uint32_t)st.size()) : st.size();
      TR("    tcp reply act=%d bytes=%zu/%zu%s", act, n2, st.size(), tact >= 3 ? " then close" : "");
      if (n2) send(c.fd, st.data(), n2, MSG_NOSIGNAL);
      if (tact == 3 || tact == 5) w.tcp_close(c); }
  }
  return handled;
}
void deliver_delayed(Ctx &cx) {
  World &w = *cx.w;
  for (auto &d : cx.delayed) { cx.n_late++; TR("  late reply");
    if (!d.tcp) udp_send(d.ns, d.to, d.bytes.data(), d.bytes.size());
    else if (d.conn >= 0 && w.conns[d.conn].fd >= 0) { uint8_t l[2] = {(uint8_t)(d.bytes.size() >> 8), (uint8_t)d.bytes.size()}; send(w.conns[d.conn].fd, l, 2, MSG_NOSIGNAL); send(w.conns[d.conn].fd, d.bytes.data(), d.bytes.size(), MSG_NOSIGNAL); } }
  cx.delayed.clear();
}
}  // namespace

extern "C" int LLVMFuzzerInitialize(int *, char ***) {
  common_init();
  sim_reset(); World w; w.open(1); Ctx cx; R r; r.cx = &cx; r.issued = true; Src s(nullptr, 0); cx.s = &s; cx.w = &w; CX = &cx;
  evdns_base_resolve_ipv4(w.dns, "warm.up", DNS_QUERY_NO_SEARCH, resolve_cb, &r); w.turn();
  Datagram d; while (udp_recv(0, &d)) { Builder b = reply_header_echo(d.data, F_QR | F_RD | F_RA | 3, 0); udp_send(0, d.from, b.b.data(), b.b.size()); }
  w.turn(); w.close_dns(0); w.turn(); event_base_free(w.base); w.base = nullptr; sim_reset(); CX = nullptr;
  return 0;
}

extern "C" int LLVMFuzzerTestOneInput(const uint8_t *data, size_t size) {
  sim_reset();
  verif_case_begin("C34");
  Src s(data, size);
  World w; Ctx cx; cx.s = &s; cx.w = &w; CX = &cx;
  cx.k_rt_uaf = verif_known("asan:heap-use-after-free@retransmit_all_tcp_requests_for");
  cx.k_probe_uaf = verif_known("asan:heap-use-after-free@nameserver_probe_callback");
  cx.k_gai_uaf = verif_known("asan:heap-use-after-free@evdns_getaddrinfo_gotresolve");
  cx.k_stall = verif_known("C34/inflight-limit-stall");
  const bool k_gai_leak = cx.k_gai_leak = verif_known("C34/leak-getaddrinfo-base-free");
  int nns = 1 + s.below(3); w.open(nns);
  int maxinf = 0; if (s.flag()) { maxinf = 1 + (int)s.below(NMAXINF); w.set_opt("max-inflight:", maxinf); cx.maxinf = maxinf; }   // known finding: a follow-up request (TCP retry / next search candidate) created while the in-flight limit is reached is parked and never pumped
  static const char *const TMO[] = {"5", "1", "0.3", "30"}; int tsel = s.below(4); if (tsel) w.set_opt("timeout:", TMO[tsel]);
  int attempts = 3; if (s.flag()) { attempts = 1 + s.below(3); w.set_opt("attempts:", attempts); }
  if (s.flag()) w.set_opt("max-timeouts:", 1 + (long)s.below(3));
  int ndom = s.below(3); if (ndom && cx.maxinf && cx.k_stall) { verif_known_skipped("C34/inflight-limit-stall"); ndom = 0; }
  cx.ndom = ndom; if (ndom) cx.followup_possible = true; static const char *const DOMS[] = {"d1.example", "d2"}; for (int i = 0; i < ndom; i++) evdns_base_search_add(w.dns, DOMS[i]);
  if (s.chance(1, 4)) w.set_opt("initial-probe-timeout:", "2");
  TR("config: nameservers=%d max-inflight=%d timeout=%s attempts=%d domains=%d", nns, maxinf, TMO[tsel], attempts, ndom);

  int end_mode = -1;
  for (int step = 0; step < 40 && w.dns; step++) {
    int op = s.below(12);
    if (op == 0) break;
    switch (op) {
      case 1: case 2: issue(cx, false); break;
      case 3: { int j = s.below(MAXREQ); if (j < cx.nreq) cancel(cx, j, false); break; }
      case 4: case 5: case 6: w.turn(); if (w.dns) serve(cx, false); if (w.dns) w.turn(); break;
      case 7: TR("advance"); collect(cx); { int64_t t0 = sim_now_us(); w.advance(); TR("  time +%lld us", (long long)(sim_now_us() - t0)); if (sim_now_us() > t0) { cx.n_timeouts++; cx.ns_may_have_failed = true; } } break;
      case 8: w.turn(); if (!cx.delayed.empty()) collect(cx); deliver_delayed(cx); w.turn(); break;
      case 9: if (s.chance(1, 3)) { free_base(cx, s.below(2), false); end_mode = 0; } break;
      case 10: burst(cx); break;
      case 11: { int m = 1 + (int)s.below(NMAXINF);   // the limit (and with it the bucket count of the in-flight table) changes while requests are outstanding
        if (cx.k_stall && (cx.ndom || cx.followup_possible)) { verif_known_skipped("C34/inflight-limit-stall"); break; }   // known finding: a follow-up request created at the limit
        TR("set max-inflight=%d", m); w.set_opt("max-inflight:", m); cx.maxinf = m; cx.n_relimit++; break; }
    }
    for (int i = 0; i < cx.nreq; i++) CHECK(cx.r[i].cb <= 1, "C34/callback-twice", "r%d callback count %d", i, cx.r[i].cb);
  }
  // ---- ending: either free the base now (requests may be pending) or let the servers fall silent until everything has timed out
  if (w.dns) {
    end_mode = s.below(3);    // 0: free(fail 0/1) now   1,2: silence, then free
    if (end_mode != 0) {
      TR("servers fall silent");
      for (int it = 0; it < 600 + 100 * cx.nreq && w.dns; it++) {
        bool any_live = false; for (int i = 0; i < cx.nreq; i++) if (cx.r[i].live()) any_live = true;
        if (!any_live) break;
        w.turn(); if (w.dns) serve(cx, true);
        if (!w.dns) break;
        bool progressed = w.advance(); cx.ns_may_have_failed = true;
        if (!progressed) { // nothing scheduled at all although a request is still waiting for its outcome
          w.turn(); bool still = false; int who = -1; for (int i = 0; i < cx.nreq; i++) if (cx.r[i].live()) { still = true; who = i; }
          if (still && w.dns) VERIF_FAIL((cx.maxinf && cx.followup_possible) ? "C34/inflight-limit-stall" : "C34/request-never-completes", "request r%d (kind %d, cancelled=%d) has not had its callback and no timer or I/O is pending", who, cx.r[who].kind, cx.r[who].cancel_called);
          break; }
      }
      if (w.dns) { for (int i = 0; i < cx.nreq; i++) CHECK(!cx.r[i].live(), "C34/request-never-completes", "request r%d (kind %d) still has no outcome after 600 + 100 per request timer rounds of silent nameservers", i, cx.r[i].kind); }
    }
    if (w.dns) { int f = s.below(2); cx.closing = true; free_base(cx, f, false); }
  }
  if (w.dns) { cx.k_gai_uaf = cx.k_probe_uaf = cx.k_gai_leak = false; free_base(cx, 0, false); }   // exclusions could not be honoured (rare): free anyway
  // deliver what the free scheduled, then make sure nothing else ever fires
  int before[MAXREQ];
  w.turn();
  for (int i = 0; i < cx.nreq; i++) before[i] = cx.r[i].cb;
  deliver_delayed(cx);
  for (int k = 0; k < 3; k++) { w.turn(); w.advance(); }
  for (int i = 0; i < cx.nreq; i++) CHECK(cx.r[i].cb == before[i], "C34/callback-after-free", "r%d got a callback long after evdns_base_free", i);
  for (int i = 0; i < cx.nreq; i++) { R &r = cx.r[i]; if (!r.issued) continue;
    if (cx.freed_fail == 1) CHECK(r.cb == 1, "C34/callback-missing", "r%d (kind %d, cancelled=%d) got %d callbacks although the base was freed with fail_requests=1", i, r.kind, r.cancel_called, r.cb);
    else if (r.cancel_called && r.kind != K_GAI) CHECK(r.cb == 1, "C34/cancel-callback-missing", "r%d was cancelled but got %d callbacks", i, r.cb);
    CHECK(r.cb <= 1, "C34/callback-twice", "r%d callback count %d", i, r.cb); }
  // ledger
  { event_base_free(w.base); w.base = nullptr; for (auto &c : w.conns) w.tcp_close(c); w.conns.clear();
    int64_t d = sim_mem_live_blocks - w.live0;
    if (d != 0) { const char *key = cx.gai_pending_at_free0 ? "C34/leak-getaddrinfo-base-free" : "C34/leak";
      if (!(cx.gai_pending_at_free0 && k_gai_leak)) VERIF_FAIL(key, "%lld library allocation(s) outstanding after evdns_base_free(fail_requests=%d)%s + event_base_free", (long long)d, cx.freed_fail, cx.freed_in_cb ? " inside a callback" : "");
      verif_known_skipped("C34/leak-getaddrinfo-base-free"); } }
  int done = 0; for (int i = 0; i < cx.nreq; i++) done += cx.r[i].cb;
  int nontrivial = cx.nreq >= 1 && done >= 1 && (cx.n_timeouts || cx.n_tcp || cx.n_cancel || cx.n_incb || cx.n_late || cx.n_search || cx.n_retrans);
  if (cx.n_timeouts) verif_class("time_advanced"); if (cx.n_tcp) verif_class("tcp_query"); if (cx.n_cancel) verif_class("cancel"); if (cx.n_incb) verif_class("in_callback_action");
  if (cx.n_late) verif_class("late_reply"); if (cx.n_search) verif_class("search_step"); if (cx.n_retrans) verif_class("retransmission"); if (cx.freed_in_cb) verif_class("free_in_callback");
  if (cx.n_burst) verif_class("burst"); if (cx.n_relimit) verif_class("max_inflight_changed_at_run_time"); if (cx.maxinf_at_free >= 6) verif_class("free_with_multi_bucket_inflight_table");
  if (cx.maxinf_at_free && cx.live_at_free > cx.maxinf_at_free) { verif_class("free_with_more_live_than_max_inflight"); if (cx.maxinf_at_free >= 6) verif_class("free_with_waiting_queue_and_multi_bucket_table"); }
  if (cx.freed_fail == 1) verif_class("free_fail1"); if (cx.freed_fail == 0) verif_class("free_fail0"); if (end_mode > 0) verif_class("drained_by_silence");
  for (int i = 0; i < cx.nreq; i++) if (cx.r[i].kind == K_GAI && cx.r[i].issued) { verif_class("getaddrinfo"); break; }
  verif_case_end(nontrivial, s.h);
  CX = nullptr;
  return 0;
}
