// C06 — the epoll change table: every (old, read_change, write_change, close_change) row x ET is applied by the
// REAL static epoll_apply_one_change to a real epoll fd whose registration holds `old`; the resulting kernel
// registration is read back from /proc/self/fdinfo/<epfd>.
//
// epoll.c does not compile as C++ and its object is linked anyway, so the static function is reached through the two
// paths the library itself uses, with a hand-made struct event_change:
//   CL  (all 512 rows): a base with EVENT_BASE_FLAG_EPOLL_USE_CHANGELIST; one real event is added on the fd so that the
//        changelist holds an entry for it; that entry's old_events/read_change/write_change/close_change are overwritten
//        with the row; evsel->dispatch(base, {0,0}) then runs epoll_apply_changes -> epoll_apply_one_change on it.
//   NCL (rows whose changes are all "add" or all "del"): epollops.add / epollops.del with (old, events) arguments,
//        which build exactly that change struct and call epoll_apply_one_change.
// The compiled table itself (epolltable-internal.h, the same header epoll.c compiles) is also checked purely against
// a model kernel so that a wrong entry is reported by index.
//
// Preconditions honoured: ET is all-or-nothing on one fd (no ET/LT mixing): with ET every non-empty change and the
// pre-existing registration carry it.  Exactly one change per dispatch.
#include "verif.h"
#include "sim.h"
#include <event2/event.h>
#include <event2/event_struct.h>
#include <sys/epoll.h>
#include <sys/socket.h>
#include <unistd.h>
#include <fcntl.h>
#include <errno.h>
#include <setjmp.h>
extern "C" {
#include "event-internal.h"
#include "evmap-internal.h"
#include "changelist-internal.h"
#include "log-internal.h"
#include "epolltable-internal.h"
extern const struct eventop epollops;     // epoll.c (declared locally in event.c)
}

namespace {
enum { CH_NONE = 0, CH_ADD = 1, CH_DEL = 2, CH_BOTH = 3 };
enum { O_R = 1, O_W = 2, O_C = 4 };                   // row encoding of condition sets
enum Path { P_CL = 0, P_NCL = 1 };
enum Kstate { K_CONSISTENT = 0, K_MISSING = 1, K_EXTRA = 2 };
static_assert(sizeof(epoll_op_table) / sizeof(epoll_op_table[0]) == 512, "table must have 512 rows");

struct Row {
  int id, old, rc, wc, cc;
  bool impossible() const { return rc == CH_BOTH || wc == CH_BOTH || cc == CH_BOTH; }
  bool nochange() const { return !rc && !wc && !cc; }
  int change(int cond) const { return cond == O_R ? rc : cond == O_W ? wc : cc; }
  // desired set: add -> present, del -> absent, none -> as before
  int desired() const { int d = 0; for (int c : {O_R, O_W, O_C}) { int ch = change(c); if (ch == CH_ADD || (ch == CH_NONE && (old & c))) d |= c; } return d; }
  // what the two callers can produce: a del only for a condition that was registered
  bool reachable() const { if (impossible()) return false; for (int c : {O_R, O_W, O_C}) if (change(c) == CH_DEL && !(old & c)) return false; return true; }
  bool all_add() const { return !impossible() && !nochange() && rc != CH_DEL && wc != CH_DEL && cc != CH_DEL; }
  bool all_del() const { return !impossible() && !nochange() && rc != CH_ADD && wc != CH_ADD && cc != CH_ADD; }
  bool has_add() const { return rc == CH_ADD || wc == CH_ADD || cc == CH_ADD; }
};
Row row_of(int id) { Row r; r.id = id; r.old = id & 7; r.rc = (id >> 3) & 3; r.wc = (id >> 5) & 3; r.cc = (id >> 7) & 3; return r; }
const char *chs(int c) { return c == CH_ADD ? "add" : c == CH_DEL ? "del" : c == CH_NONE ? "none" : "add+del"; }
std::string sets(int m) { std::string s; if (m & O_R) s += "r"; if (m & O_W) s += "w"; if (m & O_C) s += "c"; return s.empty() ? "0" : s; }
std::string rows(const Row &r, bool et) { char b[128]; snprintf(b, sizeof b, "row %d (old=%s read:%s write:%s close:%s%s)", r.id, sets(r.old).c_str(), chs(r.rc), chs(r.wc), chs(r.cc), et ? " ET" : ""); return b; }
uint32_t kmask(int set) { return (set & O_R ? EPOLLIN : 0) | (set & O_W ? EPOLLOUT : 0) | (set & O_C ? EPOLLRDHUP : 0); }
int setof(uint32_t m) { return (m & EPOLLIN ? O_R : 0) | (m & EPOLLOUT ? O_W : 0) | (m & EPOLLRDHUP ? O_C : 0); }
short evmask(int set) { return (short)((set & O_R ? EV_READ : 0) | (set & O_W ? EV_WRITE : 0) | (set & O_C ? EV_CLOSED : 0)); }
const char *ops(int op) { return op == EPOLL_CTL_ADD ? "ADD" : op == EPOLL_CTL_MOD ? "MOD" : op == EPOLL_CTL_DEL ? "DEL" : "?"; }

void fill_change(struct event_change *ch, int fd, const Row &r, bool et) {
  ch->fd = fd; ch->old_events = evmask(r.old);
  uint8_t e = et ? EV_CHANGE_ET : 0;
  ch->read_change = r.rc ? (uint8_t)(r.rc | e) : 0; ch->write_change = r.wc ? (uint8_t)(r.wc | e) : 0; ch->close_change = r.cc ? (uint8_t)(r.cc | e) : 0;
}

// ---------------------------------------------------------------- pure check of the compiled table (model kernel)
struct KModel { bool reg; int set; };
// returns false when the (first) operation is refused by the kernel model; applies the library's documented retries
bool model_apply(KModel &k, int op, int events, bool *final_ok) {
  *final_ok = true;
  if (!events) return true;                         // no syscall
  int s = setof((uint32_t)events);
  switch (op) {
    case EPOLL_CTL_ADD: if (!k.reg) { k.reg = true; k.set = s; return true; } k.set = s; return false;            // EEXIST -> MOD
    case EPOLL_CTL_MOD: if (k.reg) { k.set = s; return true; } k.reg = true; k.set = s; return false;             // ENOENT -> ADD
    case EPOLL_CTL_DEL: if (k.reg) { k.reg = false; k.set = 0; return true; } return false;                       // ENOENT tolerated
    default: *final_ok = false; return false;
  }
}
void pure_check(const Row &r) {
  struct event_change ch; fill_change(&ch, 0, r, false);
  int idx = EPOLL_OP_TABLE_INDEX(&ch);
  CHECK(idx >= 0 && idx < 512, "C06/table-index", "%s maps to index %d", rows(r, false).c_str(), idx);
  int op = epoll_op_table[idx].op, events = epoll_op_table[idx].events;
  // impossible rows: an empty mask is what makes epoll_apply_one_change return before any syscall (op is a marker there)
  if (r.impossible()) { CHECK(events == 0, "C06/impossible-row-issues-op", "table[%d] for %s is {%d, 0x%x}: must be no operation", idx, rows(r, false).c_str(), op, events); return; }
  CHECK((events & ~(int)(EPOLLIN | EPOLLOUT | EPOLLRDHUP)) == 0, "C06/table-entry", "table[%d] for %s has foreign mask bits 0x%x", idx, rows(r, false).c_str(), events);
  KModel k = {r.old != 0, r.old}; bool final_ok;
  bool first_ok = model_apply(k, op, events, &final_ok);
  int end = k.reg ? k.set : 0;
  CHECK(final_ok && end == r.desired() && (k.reg == (r.desired() != 0)), "C06/table-entry", "table[%d] for %s is {%s, 0x%x}: model kernel ends with %s registered, desired %s", idx, rows(r, false).c_str(), ops(op), events, k.reg ? sets(end).c_str() : "nothing", sets(r.desired()).c_str());
  if (r.reachable()) CHECK(first_ok, "C06/table-op-rejected", "table[%d] for %s is {%s, 0x%x}: the kernel refuses that operation when %s is registered", idx, rows(r, false).c_str(), ops(op), events, sets(r.old).c_str());
}

// ---------------------------------------------------------------- real kernel
struct CtlRec { int op; uint32_t mask; int res, err; };
struct Recorder { bool on; int fd; int n; CtlRec c[6]; } g_rec;
void io_hook(const struct sim_io_rec *r, void *) {
  if (!g_rec.on || r->kind != SYS_EPOLL_CTL || r->fd != g_rec.fd) return;
  if (g_rec.n < 6) g_rec.c[g_rec.n] = CtlRec{(int)(r->requested & 0xff), (uint32_t)(r->requested >> 8), (int)r->result, r->err};
  g_rec.n++;
}
int g_warns; char g_lastwarn[200];
// An impossible (add+del) row trips EVUTIL_ASSERT(op == 0) in epoll_apply_one_change on builds without NDEBUG (the table
// marks those rows with op 255).  No caller can produce such a row, so the assertion is legitimate; to still observe that
// no syscall was issued, the fatal callback (public API: "must not return to Libevent") leaves through longjmp, armed
// for impossible rows only.  Everywhere else a failed assertion is reported as usual.
jmp_buf g_jmp; volatile bool g_jmp_armed;
void fatal_cb(int) { if (g_jmp_armed) { g_jmp_armed = false; longjmp(g_jmp, 1); } }
void log_cb(int sev, const char *msg) {
  if (sev >= EVENT_LOG_WARN) { g_warns++; snprintf(g_lastwarn, sizeof g_lastwarn, "%s", msg); }
  if (sev >= EVENT_LOG_ERR && !g_jmp_armed) fprintf(stderr, "[err] %s\n", msg);
}
__attribute__((noinline)) int guarded_dispatch(struct event_base *base, bool guard, bool *asserted) {
  struct timeval zero = {0, 0};
  *asserted = false;
  if (!guard) return base->evsel->dispatch(base, &zero);
  g_jmp_armed = true;
  if (setjmp(g_jmp) == 0) { int r = base->evsel->dispatch(base, &zero); g_jmp_armed = false; return r; }
  *asserted = true; return 0;
}
void dummy_cb(evutil_socket_t, short, void *) {}

bool is_eventpoll(int fd) { char p[64], b[64]; snprintf(p, sizeof p, "/proc/self/fd/%d", fd); ssize_t n = readlink(p, b, sizeof b - 1); if (n <= 0) return false; b[n] = 0; return !strcmp(b, "anon_inode:[eventpoll]"); }
// registration of `fd` in epoll instance `epfd`, from /proc/self/fdinfo
bool read_reg(int epfd, int fd, uint32_t *mask, unsigned long long *data) {
  char p[64]; snprintf(p, sizeof p, "/proc/self/fdinfo/%d", epfd);
  int f = open(p, O_RDONLY | O_CLOEXEC); CHECK(f >= 0, "harness/fdinfo", "cannot open %s: %s", p, strerror(errno));
  char buf[4096]; size_t len = 0; ssize_t n;
  while (len < sizeof buf - 1 && (n = pread(f, buf + len, sizeof buf - 1 - len, (off_t)len)) > 0) len += (size_t)n;
  close(f); buf[len] = 0;
  bool saw_header = strstr(buf, "flags:") != NULL; CHECK(saw_header, "harness/fdinfo", "unexpected fdinfo content");
  bool found = false;
  for (char *l = buf; l && *l; ) {
    int tfd; unsigned ev; unsigned long long d;
    if (sscanf(l, "tfd: %d events: %x data: %llx", &tfd, &ev, &d) == 3 && tfd == fd) { *mask = ev; *data = d; found = true; }
    l = strchr(l, '\n'); if (l) l++;
  }
  return found;
}

struct Outcome { bool reg; uint32_t mask; unsigned long long data; int nctl; CtlRec c[6]; int ret; int warns; bool asserted; };

// Apply one row through the real epoll_apply_one_change and observe.
Outcome apply_row(const Row &r, bool et, Path path, Kstate ks) {
  Outcome o; memset(&o, 0, sizeof o);
  int sp[2]; CHECK(socketpair(AF_UNIX, SOCK_STREAM | SOCK_CLOEXEC | SOCK_NONBLOCK, 0, sp) == 0, "harness/socketpair", "%s", strerror(errno));
  int fd = sp[0];
  int probe = dup(fd); CHECK(probe >= 0, "harness/dup", "%s", strerror(errno)); close(probe);   // lowest free fd: epoll_create1 is the base's first fd
  struct event_config *cfg = event_config_new();
  event_config_set_flag(cfg, EVENT_BASE_FLAG_IGNORE_ENV | EVENT_BASE_FLAG_NOLOCK | (path == P_CL ? EVENT_BASE_FLAG_EPOLL_USE_CHANGELIST : 0));
  struct event_base *base = event_base_new_with_config(cfg); event_config_free(cfg);
  CHECK(base, "harness/no-base", "event_base_new_with_config failed");
  CHECK(!strncmp(event_base_get_method(base), "epoll", 5), "harness/not-epoll", "backend is %s", event_base_get_method(base));
  bool is_cl = base->evsel->add == event_changelist_add_;
  CHECK(is_cl == (path == P_CL), "harness/wrong-backend-variant", "changelist=%d wanted %d", is_cl, path == P_CL);
  if (path == P_NCL) CHECK(base->evsel == &epollops, "harness/wrong-backend-variant", "evsel is not epollops");
  int epfd = probe;
  CHECK(is_eventpoll(epfd), "harness/no-epfd", "fd %d is not the epoll fd of the base", epfd);

  struct event *ev = NULL; struct event_change *ch = NULL;
  if (path == P_CL) {
    ev = event_new(base, fd, EV_READ | EV_PERSIST, dummy_cb, NULL);
    CHECK(ev && event_add(ev, NULL) == 0, "harness/event-add", "event_add failed");
    for (int i = 0; i < base->changelist.n_changes; i++) if (base->changelist.changes[i].fd == fd && !(base->changelist.changes[i].read_change & EV_CHANGE_SIGNAL)) ch = &base->changelist.changes[i];
    CHECK(ch && base->changelist.n_changes == 1, "harness/no-change-entry", "changelist has %d entries", base->changelist.n_changes);
  }
  // the kernel registration the row starts from
  struct epoll_event pe; memset(&pe, 0, sizeof pe); pe.data.fd = fd;
  if (r.old && ks != K_MISSING) { pe.events = kmask(r.old) | (et ? (uint32_t)EPOLLET : 0); CHECK(epoll_ctl(epfd, EPOLL_CTL_ADD, fd, &pe) == 0, "harness/pre-register", "%s", strerror(errno)); }
  if (!r.old && ks == K_EXTRA) { pe.events = (r.desired() == O_R ? EPOLLOUT : EPOLLIN) | (et ? (uint32_t)EPOLLET : 0); CHECK(epoll_ctl(epfd, EPOLL_CTL_ADD, fd, &pe) == 0, "harness/pre-register", "%s", strerror(errno)); }

  g_warns = 0; g_lastwarn[0] = 0; g_rec.on = true; g_rec.fd = fd; g_rec.n = 0;
  sim_set_io_hook(io_hook, NULL);
  if (path == P_CL) {
    fill_change(ch, fd, r, et);
    int dr = guarded_dispatch(base, r.impossible(), &o.asserted);
    g_rec.on = false;
    CHECK(dr == 0, "harness/dispatch", "dispatch returned %d", dr);
    if (!o.asserted) CHECK(base->changelist.n_changes == 0, "harness/changelist-not-flushed", "n_changes=%d", base->changelist.n_changes);
    o.ret = 0;
  } else {
    short events = 0;
    for (int c : {O_R, O_W, O_C}) if (r.change(c)) events |= evmask(c);
    if (et) events |= EV_ET;
    o.ret = r.all_add() ? epollops.add(base, fd, evmask(r.old), events, NULL) : epollops.del(base, fd, evmask(r.old), events, NULL);
    g_rec.on = false;
  }
  sim_set_io_hook(NULL, NULL);
  o.warns = g_warns; o.nctl = g_rec.n; memcpy(o.c, g_rec.c, sizeof o.c);
  o.reg = read_reg(epfd, fd, &o.mask, &o.data);
  if (ev) event_free(ev);
  event_base_free(base);
  close(sp[0]); close(sp[1]);
  return o;
}

std::string ctls(const Outcome &o) {
  std::string s; char b[96];
  for (int i = 0; i < o.nctl && i < 6; i++) { snprintf(b, sizeof b, "%s%s(0x%x)=%s", i ? ", " : "", ops(o.c[i].op), o.c[i].mask, o.c[i].res == 0 ? "ok" : strerror(o.c[i].err)); s += b; }
  return s.empty() ? "no epoll_ctl" : s;
}

// The oracle for one applied row.
void judge(const Row &r, bool et, Path path, Kstate ks, const Outcome &o) {
  std::string R = rows(r, et) + (path == P_CL ? " via changelist dispatch" : " via epollops.add/del") + (ks == K_MISSING ? " [kernel registration missing]" : ks == K_EXTRA ? " [stale kernel registration]" : "");
  std::string got = o.reg ? sets(setof(o.mask)) : std::string("nothing");
  TR("%s: %s%s -> registered %s%s (desired %s)", R.c_str(), ctls(o).c_str(), o.asserted ? " (EVUTIL_ASSERT refused the row)" : "", got.c_str(), o.reg && (o.mask & EPOLLET) ? " ET" : "", sets(r.impossible() ? r.old : r.desired()).c_str());
  if (r.impossible()) {
    CHECK(o.nctl == 0, "C06/impossible-row-issues-op", "%s issued %s", R.c_str(), ctls(o).c_str());
    CHECK(o.reg == (r.old != 0) && (!o.reg || setof(o.mask) == r.old), "C06/impossible-row-issues-op", "%s changed the registration to %s", R.c_str(), got.c_str());
    return;
  }
  int want = r.desired();
  const char *kend = ks == K_CONSISTENT ? "C06/end-state" : "C06/stale-end-state";
  CHECK(o.reg == (want != 0) && (!o.reg || setof(o.mask) == want), kend, "%s: %s leaves %s registered, desired %s", R.c_str(), ctls(o).c_str(), got.c_str(), sets(want).c_str());
  if (o.reg) {
    CHECK((o.mask & ~(uint32_t)(EPOLLIN | EPOLLOUT | EPOLLRDHUP | EPOLLET | EPOLLERR | EPOLLHUP)) == 0, "C06/foreign-mask-bits", "%s: registered mask 0x%x", R.c_str(), o.mask);
    CHECK(!!(o.mask & EPOLLET) == et, "C06/edge-trigger-flag", "%s: registered mask 0x%x, EPOLLET %s", R.c_str(), o.mask, et ? "requested" : "not requested");
    CHECK(o.data == (unsigned long long)g_rec.fd, "C06/event-data", "%s: registered data %llx is not the fd %d", R.c_str(), o.data, g_rec.fd);
  }
  // the library must consider the change applied (ENOENT on a DEL is documented as fine)
  CHECK(o.ret == 0 && o.warns == 0, "C06/apply-reports-failure", "%s: %s, return %d, warning \"%s\"", R.c_str(), ctls(o).c_str(), o.ret, g_lastwarn);
  if (ks == K_CONSISTENT && r.reachable()) {
    // rows the callers can produce must not rely on the ENOENT/EEXIST retry paths
    CHECK(o.nctl <= 1, "C06/op-rejected-by-kernel", "%s needed %d epoll_ctl calls: %s", R.c_str(), o.nctl, ctls(o).c_str());
    if (o.nctl == 1) CHECK(o.c[0].res == 0, "C06/op-rejected-by-kernel", "%s: %s", R.c_str(), ctls(o).c_str());
    if (!r.nochange()) CHECK(o.nctl == 1, "C06/no-op-for-change", "%s issued no epoll_ctl", R.c_str());
  }
}

bool applicable(const Row &r, Path p, Kstate ks) {
  if (p == P_NCL && !(r.all_add() || r.all_del())) return false;
  if (ks == K_MISSING && (r.old == 0 || r.impossible() || r.nochange())) return false;
  if (ks == K_EXTRA && (r.old != 0 || !r.has_add() || r.impossible())) return false;
  return true;
}

void sweep_all() {
  uint64_t n_pure = 0, n_cl = 0, n_ncl = 0, n_stale = 0;
  for (int id = 0; id < 512; id++) {
    Row r = row_of(id);
    pure_check(r); n_pure++;
    for (int et = 0; et < 2; et++) {
      judge(r, et, P_CL, K_CONSISTENT, apply_row(r, et, P_CL, K_CONSISTENT)); n_cl++;
      if (applicable(r, P_NCL, K_CONSISTENT)) { judge(r, et, P_NCL, K_CONSISTENT, apply_row(r, et, P_NCL, K_CONSISTENT)); n_ncl++; }
      for (Kstate ks : {K_MISSING, K_EXTRA}) for (Path p : {P_CL, P_NCL})
        if (applicable(r, p, ks)) { judge(r, et, p, ks, apply_row(r, et, p, ks)); n_stale++; }
    }
  }
  verif_class_n("sweep_table_rows_pure_512", n_pure);
  verif_class_n("sweep_rows_x_et_changelist_1024", n_cl);
  verif_class_n("sweep_rows_x_et_nochangelist", n_ncl);
  verif_class_n("sweep_stale_kernel_state", n_stale);
  verif_class("sweeps");
}
}  // namespace

extern "C" int LLVMFuzzerInitialize(int *, char ***) { event_set_log_callback(log_cb); event_set_fatal_callback(fatal_cb); return 0; }

extern "C" int LLVMFuzzerTestOneInput(const uint8_t *data, size_t size) {
  sim_reset();
  verif_case_begin("C06");
  Src s(data, size);
  static bool swept;
  bool saved_trace = verif_trace_on;
  if (!swept) { verif_trace_on = 0; sweep_all(); swept = true; verif_trace_on = saved_trace; }
  Row r = row_of((int)s.below(512));
  bool et = s.flag();
  Path p = s.flag() ? P_NCL : P_CL;
  Kstate ks = (Kstate)s.below(3);
  if (!applicable(r, p, ks)) ks = K_CONSISTENT;
  if (!applicable(r, p, ks)) p = P_CL;
  pure_check(r);
  judge(r, et, p, ks, apply_row(r, et, p, ks));
  verif_class(r.impossible() ? "row_impossible" : r.nochange() ? "row_nochange" : r.reachable() ? "row_reachable" : "row_del_of_absent");
  verif_class(p == P_CL ? "path_changelist" : "path_nochangelist");
  verif_class(ks == K_CONSISTENT ? "kernel_consistent" : ks == K_MISSING ? "kernel_registration_missing" : "kernel_registration_stale");
  uint64_t h = (uint64_t)r.id | (uint64_t)et << 9 | (uint64_t)p << 10 | (uint64_t)ks << 11;
  verif_case_end(!r.impossible() && !r.nochange(), h);
  return 0;
}
