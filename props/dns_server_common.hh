// Shared world for the server-side DNS checks (C35 dns_server_emit, C37 dns_server_parse):
// an event_base under the harness virtual clock, one evdns server port per case (UDP socket bound by the harness on
// 127.0.0.1:0, or an evconnlistener on 127.0.0.1:0 for TCP), a process-wide client UDP socket and a per-case client
// TCP socket owned by the harness.  Also the response oracle both targets use (check_response).
// Copied in spirit from props/dns_common.hh (resolver-side world of the dns-client agent); refs/dnscodec.hh is used
// read-only as the reference decoder.
#pragma once
#include "verif.h"
#include "sim.h"
#include "dnscodec.hh"
#include <event2/event.h>
#include <event2/dns.h>
#include <event2/dns_struct.h>
#include <event2/listener.h>
#include <event2/util.h>
#include <arpa/inet.h>
#include <errno.h>
#include <fcntl.h>
#include <netinet/in.h>
#include <netinet/tcp.h>
#include <signal.h>
#include <sys/socket.h>
#include <unistd.h>

namespace dnss {
using namespace dnsref;

static int g_cli = -1;                  // client UDP socket (process-wide, drained at the start of every case)
static struct sockaddr_in g_cli_addr;

static void quiet_log(int sev, const char *msg) { if (sev == EVENT_LOG_ERR) fprintf(stderr, "[err] %s\n", msg); }     // keep assertion texts (the driver keys on them)
static void fatal_cb(int err) { if ((unsigned)err == 0xdeaddeadu) { verif_stats_flush(); abort(); } verif_fail("harness/event-fatal", "libevent fatal error %d", err); }
static void set_nonblock(int fd) { int fl = fcntl(fd, F_GETFL); fcntl(fd, F_SETFL, fl | O_NONBLOCK); }
static struct sockaddr_in loopback0() { struct sockaddr_in sin; memset(&sin, 0, sizeof sin); sin.sin_family = AF_INET; sin.sin_addr.s_addr = htonl(INADDR_LOOPBACK); sin.sin_port = 0; return sin; }

static void common_init() {
  sim_mem_install();
  event_set_log_callback(quiet_log);
  event_set_fatal_callback(fatal_cb);
  signal(SIGPIPE, SIG_IGN);
  g_cli = socket(AF_INET, SOCK_DGRAM | SOCK_CLOEXEC, 0);
  struct sockaddr_in sin = loopback0();
  if (g_cli < 0 || bind(g_cli, (struct sockaddr *)&sin, sizeof sin) < 0) { fprintf(stderr, "dns_server_common: cannot create the client socket\n"); abort(); }
  socklen_t sl = sizeof sin; getsockname(g_cli, (struct sockaddr *)&sin, &sl); g_cli_addr = sin;
  int big = 1 << 21; setsockopt(g_cli, SOL_SOCKET, SO_RCVBUF, &big, sizeof big); setsockopt(g_cli, SOL_SOCKET, SO_SNDBUF, &big, sizeof big);
  set_nonblock(g_cli);
}

struct World {
  struct event_base *base = nullptr;
  struct evdns_server_port *port = nullptr;
  bool tcp = false;
  int srv_udp = -1; struct sockaddr_in srv_addr;
  int cli_tcp = -1; std::vector<uint8_t> tcp_in; bool tcp_eof = false;
  int64_t live0 = 0;

  static int64_t wait_hook(const struct sim_wait_info *wi, void *arg) {
    World *w = (World *)arg;
    if (wi->nready > 0) return 20;
    if (wi->timeout_us < 0) { event_base_loopbreak(w->base); return 0; }
    return wi->timeout_us;
  }
  void open(bool use_tcp, evdns_request_callback_fn_type cb, void *arg) {
    uint8_t junk[2048]; while (recv(g_cli, junk, sizeof junk, 0) >= 0) {}
    live0 = sim_mem_live_blocks;
    sim_clock_enable(SIM_START_US);
    sim_set_wait_hook(wait_hook, this);
    base = event_base_new();
    CHECK(base, "harness/setup", "event_base_new failed");
    tcp = use_tcp;
    struct sockaddr_in sin = loopback0();
    if (!tcp) {
      srv_udp = socket(AF_INET, SOCK_DGRAM | SOCK_CLOEXEC, 0);
      CHECK(srv_udp > 0 && bind(srv_udp, (struct sockaddr *)&sin, sizeof sin) == 0, "harness/setup", "server UDP socket: %s", strerror(errno));
      socklen_t sl = sizeof sin; getsockname(srv_udp, (struct sockaddr *)&sin, &sl); srv_addr = sin;
      int big = 1 << 21; setsockopt(srv_udp, SOL_SOCKET, SO_SNDBUF, &big, sizeof big);
      set_nonblock(srv_udp);
      port = evdns_add_server_port_with_base(base, srv_udp, 0, cb, arg);     // the port owns (and closes) the socket
      CHECK(port, "harness/setup", "evdns_add_server_port_with_base failed");
    } else {
      // no SO_REUSEADDR: with it the kernel may hand out an ephemeral port another process is about to listen on (listen() then fails)
      struct evconnlistener *l = nullptr;
      for (int attempt = 0; attempt < 50 && !l; attempt++) l = evconnlistener_new_bind(base, nullptr, nullptr, LEV_OPT_CLOSE_ON_FREE, 16, (struct sockaddr *)&sin, sizeof sin);
      CHECK(l, "harness/setup", "evconnlistener_new_bind: %s", strerror(errno));
      socklen_t sl = sizeof sin; getsockname(evconnlistener_get_fd(l), (struct sockaddr *)&sin, &sl); srv_addr = sin;
      port = evdns_add_server_port_with_listener(base, l, 0, cb, arg);          // the port owns (and frees) the listener
      CHECK(port, "harness/setup", "evdns_add_server_port_with_listener failed");
    }
  }
  void turn() { event_base_loop(base, EVLOOP_NONBLOCK); }
  // Loopback delivery is normally synchronous; should the kernel defer it (softirq under load), give it a little real time before an
  // expected reaction is declared missing.  Only ever lengthens a case that is about to fail.
  template <class F> void settle(F done) { for (int i = 0; i < 50 && !done(); i++) { struct timespec ts = {0, 1000000}; ppoll(nullptr, 0, &ts, nullptr); turn(); if (tcp) tcp_read(); } }

  bool udp_send(const uint8_t *p, size_t n) { ssize_t r = sendto(g_cli, p, n, 0, (const struct sockaddr *)&srv_addr, sizeof srv_addr); return r == (ssize_t)n; }
  bool udp_recv(std::vector<uint8_t> *out) {
    static uint8_t buf[70000]; struct sockaddr_in from; socklen_t fl = sizeof from;
    ssize_t r = recvfrom(g_cli, buf, sizeof buf, 0, (struct sockaddr *)&from, &fl);
    if (r < 0) return false;
    out->assign(buf, buf + r); return true;
  }
  void tcp_connect() {
    tcp_close();
    cli_tcp = socket(AF_INET, SOCK_STREAM | SOCK_CLOEXEC, 0);
    CHECK(cli_tcp >= 0 && connect(cli_tcp, (struct sockaddr *)&srv_addr, sizeof srv_addr) == 0, "harness/setup", "client connect: %s", strerror(errno));
    int one = 1; setsockopt(cli_tcp, IPPROTO_TCP, TCP_NODELAY, &one, sizeof one);
    set_nonblock(cli_tcp); tcp_in.clear(); tcp_eof = false;
  }
  // abortive close (RST): leaves no TIME_WAIT socket behind, tens of thousands of cases per minute would exhaust the port range
  void tcp_close() { if (cli_tcp >= 0) { struct linger lg = {1, 0}; setsockopt(cli_tcp, SOL_SOCKET, SO_LINGER, &lg, sizeof lg); close(cli_tcp); cli_tcp = -1; } }
  // send everything (the server's loop is turned whenever the socket is full); false when the peer is gone
  bool tcp_send(const uint8_t *p, size_t n) {
    size_t pos = 0; int stalls = 0;
    while (pos < n) {
      ssize_t r = send(cli_tcp, p + pos, n - pos, MSG_NOSIGNAL);
      if (r > 0) { pos += (size_t)r; stalls = 0; continue; }
      if (r < 0 && (errno == EAGAIN || errno == EWOULDBLOCK) && ++stalls < 50) { turn(); tcp_read(); continue; }
      return false;
    }
    return true;
  }
  size_t tcp_read() {
    size_t got = 0; if (cli_tcp < 0 || tcp_eof) return 0;
    for (;;) { static uint8_t buf[65536]; int one = 1; setsockopt(cli_tcp, IPPROTO_TCP, TCP_QUICKACK, &one, sizeof one); ssize_t r = read(cli_tcp, buf, sizeof buf);
      if (r > 0) { tcp_in.insert(tcp_in.end(), buf, buf + r); got += (size_t)r; } else { if (r == 0 || (errno != EAGAIN && errno != EWOULDBLOCK && errno != EINTR)) tcp_eof = true; break; } }
    return got;
  }
  // run the server and collect what it writes until nothing more arrives
  bool tcp_partial() const { if (tcp_in.empty()) return false; if (tcp_in.size() < 2) return true; size_t n = ((size_t)tcp_in[0] << 8) | tcp_in[1]; return tcp_in.size() < 2 + n; }
  // run the server and collect what it writes until nothing more arrives.  While a message is only partly there, wait (bounded, real
  // time) for the kernel: the server socket has Nagle on, so a short tail segment is held back until our ACK is out.
  void tcp_pump() {
    int quiet = 0, waited = 0;
    while (quiet < 2) {
      turn(); size_t g = tcp_read(); TR("    pump: read %zu (have %zu)", g, tcp_in.size());
      if (g) { quiet = 0; continue; }
      if (tcp_partial() && !tcp_eof && waited < 100) { waited++; struct pollfd pf = {cli_tcp, POLLIN, 0}; struct timespec ts = {0, 2000000}; ppoll(&pf, 1, &ts, nullptr); continue; }
      quiet++;
    }
  }
  bool tcp_pop(std::vector<uint8_t> *msg) {
    if (tcp_in.size() < 2) return false; size_t n = ((size_t)tcp_in[0] << 8) | tcp_in[1];
    if (tcp_in.size() < 2 + n) return false;
    msg->assign(tcp_in.begin() + 2, tcp_in.begin() + 2 + n); tcp_in.erase(tcp_in.begin(), tcp_in.begin() + 2 + n); return true;
  }
  void finish(const char *leak_key) {
    tcp_close();
    if (port) { turn(); evdns_close_server_port(port); port = nullptr; }
    if (base) { event_base_loop(base, EVLOOP_NONBLOCK); event_base_free(base); base = nullptr; }
    int64_t d = sim_mem_live_blocks - live0;
    CHECK(d == 0, leak_key, "library allocations outstanding after evdns_close_server_port + event_base_free: %lld block(s)", (long long)d);
  }
};

// ---------------------------------------------------------------------------------------- response oracle
// What the harness knows about the response it expects.
struct XRec {
  Labels owner; uint16_t type = 0, klass = 0; uint32_t ttl = 0;
  bool is_name = false; Labels target;                 // rdata is a domain name
  const uint8_t *data = nullptr; size_t datalen = 0;   // rdata is opaque bytes
  bool opt = false;                                    // the OPT pseudo-RR the server adds on its own (class not compared)
};
struct Expect {
  uint16_t id = 0; int rcode = 0;
  std::vector<Question> q;
  std::vector<XRec> sec[3];
  bool tcp = false;
  size_t limit = 512;          // the client's size limit
  long full_size = -1;         // exact size of the complete message when known (measured in an earlier exchange), else -1
  size_t upper_bound = 0;      // size of the message without any compression
  bool body_when_truncated = true;   // check what a truncated message still carries (C35); C37 only checks limit / TC / header
};
struct RespInfo { bool tc = false; bool complete = false; size_t len = 0; int records_present = 0; int compressed_names = 0; size_t max_ptr_src = 0; };

static inline bool labels_eq(const Labels &a, const Labels &b, bool nocase) {
  if (a.size() != b.size()) return false;
  for (size_t i = 0; i < a.size(); i++) { if (nocase ? !eq_nocase(a[i], b[i]) : a[i] != b[i]) return false; }
  return true;
}
// upper bound of what a name takes: its uncompressed form, +1 because the final root may be written as a 2-byte pointer to an earlier root
static inline size_t name_ub(const Labels &l) { return wire_len(l) + 1; }
static inline size_t xrec_size(const XRec &r) { return name_ub(r.owner) + 10 + (r.is_name ? name_ub(r.target) : r.datalen); }
static inline size_t uncompressed_size(const Expect &e) {
  size_t n = 12; for (auto &q : e.q) n += name_ub(q.name) + 4;
  for (int s = 0; s < 3; s++) for (auto &r : e.sec[s]) n += xrec_size(r);
  return n;
}

static thread_local std::string g_keybuf;
static inline const char *mkkey(const char *P, const char *suffix) { g_keybuf = std::string(P) + "/" + suffix; return g_keybuf.c_str(); }

// A name in the message does not expand to what was intended: is it the 14-bit pointer problem (an intended target at
// offset >= 0x4000 whose low 14 bits were emitted)?
static inline bool ptr_wraps(const uint8_t *p, size_t n, size_t start, const Labels &want) {
  size_t j = start; size_t inplace = 0;
  while (j < n) {
    uint8_t c = p[j];
    if ((c & 0xc0) == 0xc0) {
      if (j + 1 >= n) return false;
      size_t tgt = ((size_t)(c & 0x3f) << 8) | p[j + 1];
      if (inplace > want.size()) return false;
      Labels suffix(want.begin() + inplace, want.end());
      for (int k = 1; k <= 3; k++) { size_t off = tgt + 0x4000u * k; if (off >= n) break; NameResult nm = parse_name(p, n, &off); if (nm.ok && labels_eq(nm.labels, suffix, true)) return true; }
      return false;
    }
    if (c == 0 || (c & 0xc0)) return false;
    j += 1 + c; inplace++;
  }
  return false;
}

// Decode `m` with the reference decoder and compare with `e`.  P = "C35" / "C37" (key prefix).
static inline void check_response(const std::vector<uint8_t> &m, const Expect &e, const char *P, RespInfo *ri) {
  const uint8_t *p = m.data(); size_t n = m.size();
  ri->len = n;
  CHECK(n >= 12, mkkey(P, "response-shorter-than-header"), "response of %zu bytes", n);
  uint16_t id = rd16(p), fl = rd16(p + 2), qd = rd16(p + 4); uint16_t cnt[3] = {rd16(p + 6), rd16(p + 8), rd16(p + 10)};
  CHECK(id == e.id, mkkey(P, "response-id"), "response id %u, query id %u", id, e.id);
  CHECK(fl & F_QR, mkkey(P, "response-qr-clear"), "QR is not set in the response (flags %04x)", fl);
  CHECK((fl & F_RCODE) == e.rcode, mkkey(P, "response-rcode"), "rcode %d, the callback responded with %d", fl & F_RCODE, e.rcode);
  CHECK(n <= e.limit, mkkey(P, "response-exceeds-limit"), "response of %zu bytes to a client whose limit is %zu (%s)", n, e.limit, e.tcp ? "TCP" : "UDP");
  bool tc = (fl & F_TC) != 0; ri->tc = tc;
  if (tc) {
    if (e.full_size >= 0) CHECK((size_t)e.full_size > e.limit, mkkey(P, "spurious-truncation"), "TC set on a %zu-byte response although the complete message has %ld bytes and the limit is %zu", n, e.full_size, e.limit);
    else CHECK(e.upper_bound > e.limit, mkkey(P, "spurious-truncation"), "TC set on a %zu-byte response although even the uncompressed message (%zu bytes) fits the limit %zu", n, e.upper_bound, e.limit);
  } else if (e.full_size >= 0) {
    CHECK((size_t)e.full_size <= e.limit, mkkey(P, "oversize-not-truncated"), "complete message has %ld bytes, limit %zu, but TC is clear (%zu bytes sent)", e.full_size, e.limit, n);
  }
  if (tc && !e.body_when_truncated) return;
  // counts: complete => exactly what was added; truncated => never more than what was added
  size_t want_cnt[3] = {e.sec[0].size(), e.sec[1].size(), e.sec[2].size()};
  if (!tc) {
    CHECK(qd == e.q.size(), mkkey(P, "question-count"), "QDCOUNT %u, the request had %zu question(s)", qd, e.q.size());
    for (int s = 0; s < 3; s++) CHECK(cnt[s] == want_cnt[s], mkkey(P, "record-count"), "section %d: header count %u, %zu record(s) were added", s, cnt[s], want_cnt[s]);
  } else {
    CHECK(qd <= e.q.size(), mkkey(P, "question-count"), "QDCOUNT %u, the request had %zu question(s)", qd, e.q.size());
    for (int s = 0; s < 3; s++) CHECK(cnt[s] <= want_cnt[s], mkkey(P, "record-count"), "section %d: header count %u, only %zu record(s) were added", s, cnt[s], want_cnt[s]);
  }
  size_t off = 12; bool ran_out = false; const char *ran_out_what = "";
  // ---- questions
  for (unsigned i = 0; i < qd && !ran_out; i++) {
    size_t start = off; NameResult nm = parse_name(p, n, &off);
    if (!nm.ok || off + 4 > n) { ran_out = true; ran_out_what = "question"; if (!tc) VERIF_FAIL(mkkey(P, "response-malformed"), "question %u at offset %zu is not decodable (message %zu bytes)", i, start, n); break; }
    CHECK(!nm.fwd_ptr, mkkey(P, "forward-pointer"), "question %u at offset %zu uses a pointer that does not point backwards", i, start);
    bool same = labels_eq(nm.labels, e.q[i].name, false);
    if (!same && ptr_wraps(p, n, start, e.q[i].name)) { VERIF_FAIL("C35/ptr-offset-ge-16384", "question %u at offset %zu: pointer to an occurrence at offset >= 16384 was emitted modulo 0x4000; decoded \"%s\" want \"%s\"", i, start, esc(join(nm.labels), 80).c_str(), esc(join(e.q[i].name), 80).c_str()); }
    CHECK(same, mkkey(P, "question-mismatch"), "question %u decodes to \"%s\", the request asked \"%s\"", i, esc(join(nm.labels), 100).c_str(), esc(join(e.q[i].name), 100).c_str());
    CHECK(!nm.too_long, mkkey(P, "name-too-long"), "question %u expands to more than 255 octets", i);
    uint16_t t = rd16(p + off), c = rd16(p + off + 2); off += 4;
    CHECK(t == e.q[i].type && c == e.q[i].klass, mkkey(P, "question-mismatch"), "question %u type/class %u/%u, the request had %u/%u", i, t, c, e.q[i].type, e.q[i].klass);
    if (nm.compressed) { ri->compressed_names++; if (start > ri->max_ptr_src) ri->max_ptr_src = start; }
  }
  // ---- records
  for (int s = 0; s < 3 && !ran_out; s++) for (unsigned i = 0; i < cnt[s]; i++) {
    const XRec &x = e.sec[s][i];
    size_t start = off; NameResult nm = parse_name(p, n, &off);
    bool hdr_ok = nm.ok && off + 10 <= n;
    if ((!nm.ok || !labels_eq(nm.labels, x.owner, true)) && ptr_wraps(p, n, start, x.owner)) { VERIF_FAIL("C35/ptr-offset-ge-16384", "section %d record %u owner at offset %zu: pointer to an occurrence at offset >= 16384 was emitted modulo 0x4000; decoded \"%s\" want \"%s\"", s, i, start, esc(join(nm.labels), 80).c_str(), esc(join(x.owner), 80).c_str()); }
    if (!hdr_ok) { ran_out = true; ran_out_what = "record header"; if (!tc) VERIF_FAIL(mkkey(P, "response-malformed"), "section %d record %u at offset %zu is not decodable (message %zu bytes)", s, i, start, n); break; }
    CHECK(!nm.fwd_ptr, mkkey(P, "forward-pointer"), "section %d record %u owner at offset %zu uses a pointer that does not point backwards", s, i, start);
    CHECK(labels_eq(nm.labels, x.owner, true), mkkey(P, "record-mismatch"), "section %d record %u owner decodes to \"%s\", added \"%s\"", s, i, esc(join(nm.labels), 100).c_str(), esc(join(x.owner), 100).c_str());
    CHECK(!nm.too_long, mkkey(P, "name-too-long"), "section %d record %u owner expands to more than 255 octets", s, i);
    if (nm.compressed) { ri->compressed_names++; if (start > ri->max_ptr_src) ri->max_ptr_src = start; }
    uint16_t t = rd16(p + off), c = rd16(p + off + 2); uint32_t ttl = rd32(p + off + 4); uint16_t rdlen = rd16(p + off + 8); off += 10;
    CHECK(t == x.type && (x.opt || c == x.klass) && ttl == x.ttl, mkkey(P, "record-mismatch"), "section %d record %u type/class/ttl %u/%u/%u, added %u/%u/%u", s, i, t, c, ttl, x.type, x.klass, x.ttl);
    size_t rdoff = off;
    if (rdoff + rdlen > n) {
      ran_out = true; ran_out_what = "record data";
      if (!tc) VERIF_FAIL(mkkey(P, "response-malformed"), "section %d record %u: RDLENGTH %u runs past the end of the %zu-byte message", s, i, rdlen, n);
      // a cut message must still be a prefix of the real one: what is there of this record's data must be the data that was added
      if (!x.is_name) {
        CHECK(rdlen == x.datalen, mkkey(P, "record-mismatch"), "section %d record %u: RDLENGTH %u, %zu bytes were added", s, i, rdlen, x.datalen);
        size_t avail = n - rdoff; if (avail > x.datalen) avail = x.datalen;
        if (avail && memcmp(p + rdoff, x.data, avail) != 0) {
          { size_t d = 0; while (d < avail && p[rdoff + d] == x.data[d]) d++;
            VERIF_FAIL("C35/truncated-tail-not-from-message", "truncated response (%zu bytes, %s): the %zu byte(s) after the header of section %d record %u are not the data that was added (first difference at message offset %zu: sent %02x, added %02x) - bytes that were never written into the message were sent", n, e.tcp ? "TCP" : "UDP", avail, s, i, rdoff + d, p[rdoff + d], x.data[d]); }
        }
      }
      break;
    }
    if (x.is_name) {
      size_t o2 = rdoff; NameResult tn = parse_name(p, n, &o2);
      if ((!tn.ok || !labels_eq(tn.labels, x.target, true)) && ptr_wraps(p, n, rdoff, x.target)) { VERIF_FAIL("C35/ptr-offset-ge-16384", "section %d record %u rdata name at offset %zu: pointer to an occurrence at offset >= 16384 was emitted modulo 0x4000; decoded \"%s\" want \"%s\"", s, i, rdoff, esc(join(tn.labels), 80).c_str(), esc(join(x.target), 80).c_str()); }
      CHECK(tn.ok, mkkey(P, "response-malformed"), "section %d record %u: the name in the rdata (offset %zu) is not decodable", s, i, rdoff);
      CHECK(o2 == rdoff + rdlen, mkkey(P, "rdlength-name"), "section %d record %u: RDLENGTH %u but the name in the rdata occupies %zu byte(s)", s, i, rdlen, o2 - rdoff);
      CHECK(!tn.fwd_ptr, mkkey(P, "forward-pointer"), "section %d record %u rdata name at offset %zu uses a pointer that does not point backwards", s, i, rdoff);
      CHECK(labels_eq(tn.labels, x.target, true), mkkey(P, "record-mismatch"), "section %d record %u rdata name decodes to \"%s\", added \"%s\"", s, i, esc(join(tn.labels), 100).c_str(), esc(join(x.target), 100).c_str());
      CHECK(!tn.too_long, mkkey(P, "name-too-long"), "section %d record %u rdata name expands to more than 255 octets", s, i);
      if (tn.compressed) { ri->compressed_names++; if (rdoff > ri->max_ptr_src) ri->max_ptr_src = rdoff; }
    } else {
      CHECK(rdlen == x.datalen, mkkey(P, "record-mismatch"), "section %d record %u: RDLENGTH %u, %zu byte(s) were added", s, i, rdlen, x.datalen);
      if (rdlen && memcmp(p + rdoff, x.data, rdlen) != 0) { size_t d = 0; while (p[rdoff + d] == x.data[d]) d++;
        VERIF_FAIL(mkkey(P, "record-mismatch"), "section %d record %u: rdata differs from what was added at byte %zu (sent %02x, added %02x)", s, i, d, p[rdoff + d], x.data[d]); }
    }
    off = rdoff + rdlen; ri->records_present++;
  }
  if (ran_out) {
    // only reachable with TC set: the header announces something that is not (completely) there
    VERIF_FAIL("C35/truncated-counts-not-adjusted", "truncated response (%zu bytes, TC set, %s): header counts QD=%u AN=%u NS=%u AR=%u but the message ends inside a %s at offset %zu - the counts describe records that are not present", n, e.tcp ? "TCP" : "UDP", qd, cnt[0], cnt[1], cnt[2], ran_out_what, off);
  }
  if (!tc) CHECK(off == n, mkkey(P, "trailing-bytes"), "%zu byte(s) after the last record", n - off);
  ri->complete = !tc;
}

// ---- query construction
struct QuerySpec { uint16_t id = 0, flags = 0; std::vector<Question> q; bool compress_q = false; bool opt = false; uint16_t opt_size = 0; };
static inline std::vector<uint8_t> build_query(const QuerySpec &qs) {
  Builder b; b.header(qs.id, qs.flags, (uint16_t)qs.q.size(), 0, 0, qs.opt ? 1 : 0);
  for (size_t i = 0; i < qs.q.size(); i++) {
    // optionally write a later question that ends with the whole first question name as labels + pointer to offset 12
    if (qs.compress_q && i > 0 && qs.q[i].name.size() >= qs.q[0].name.size() && !qs.q[0].name.empty() &&
        std::equal(qs.q[0].name.begin(), qs.q[0].name.end(), qs.q[i].name.end() - qs.q[0].name.size())) {
      Labels head(qs.q[i].name.begin(), qs.q[i].name.end() - qs.q[0].name.size()); b.labels_then_ptr(head, 12); b.u16(qs.q[i].type); b.u16(qs.q[i].klass);
    } else b.question(qs.q[i].name, qs.q[i].type, qs.q[i].klass);
  }
  if (qs.opt) { b.u8(0); b.u16(T_OPT); b.u16(qs.opt_size); b.u32(0); b.u16(0); }
  return b.b;
}
static inline XRec opt_xrec() { XRec r; r.type = T_OPT; r.opt = true; return r; }

}  // namespace dnss
