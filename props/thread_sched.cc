// C09 leg A — cross-thread calls under a deterministic scheduler that owns every interleaving decision.
// Threads: T0 controller, L = event loop, W1/W2 = workers running pre-drawn scripts of cross-thread calls.
// Exactly one thread runs at a time (sim/vsched.cc); switch points: every lock acquire/release, condition wait,
// explicit yields inside callbacks, and the loop's backend wait.  Virtual clock.
// Oracles: (1) never lost: when the loop is about to sleep (nothing ready, no other thread can run) no cross-thread
// activation / loopexit is outstanding and the requested sleep does not pass the earliest timer deadline;
// (2) del waits: when event_del/event_del_block returns in a worker the event's callback is not running and does
// not start until that worker re-adds/activates it; (3) no deadlock, no lock misuse, data written through a
// thread-safe bufferevent pair / locked evbuffer arrives intact; event_base_assert_ok_ at the end.
// Preconditions: each "D" event is added/deleted/activated by ONE worker only (so "will not start" is well defined).
#include "verif.h"
#include "sim.h"
#include "vsched.h"
#include <poll.h>
#include <event2/event.h>
#include <event2/event_struct.h>
#include <event2/buffer.h>
#include <event2/bufferevent.h>
#include <event2/thread.h>
extern "C" {
#include "event-internal.h"
}

extern "C" int __real_poll(struct pollfd *, nfds_t, int);
namespace {
enum { NA = 2, ND = 2 };
enum OpK { O_END, O_ACTIVE_A, O_ADD_D, O_DEL_D, O_DELBLOCK_D, O_DELNOBLOCK_D, O_ACTIVE_D, O_BEV_WRITE, O_BUF_ADD, O_YIELD, O__N };
struct Op { int k, i, n; };
struct World {
  Src *s; struct event_base *base;
  struct event *A[NA], *D[ND], *K;
  volatile bool want[NA]; volatile bool in_cb[ND], deleted[ND]; int cb_count_A[NA], cb_count_D[ND];
  struct bufferevent *pa, *pb; std::string sent, recv;
  struct evbuffer *shared; int added[3];
  std::vector<Op> script[3];
  bool exit_requested = false, use_break = false, loop_done = false, loop_entered = false, workers_done = false; int loop_ret = -2;
  uint64_t idle_sleeps = 0, cross_calls = 0, del_during_cb = 0;
  uint64_t last_sw = 0;
};
World *W;

void a_cb(evutil_socket_t, short, void *arg) { int i = (int)(intptr_t)arg; W->want[i] = false; W->cb_count_A[i]++; sched_yield_point(); }
void d_cb(evutil_socket_t, short what, void *arg) {
  int i = (int)(intptr_t)arg;
  CHECK(!W->deleted[i], "C09/callback-after-del", "callback of D%d started after event_del returned in its owner thread (what=0x%x)", i, what);
  W->in_cb[i] = true; W->cb_count_D[i]++;
  int y = 1 + W->s->below(3); for (int k = 0; k < y; k++) sched_yield_point();
  W->in_cb[i] = false;
}
void k_cb(evutil_socket_t, short, void *) {}
void pb_read(struct bufferevent *b, void *) { char tmp[512]; size_t n; while ((n = bufferevent_read(b, tmp, sizeof tmp)) > 0) W->recv.append(tmp, n); }
void pb_event(struct bufferevent *, short, void *) {}

int64_t wait_hook(const struct sim_wait_info *wi, void *) {
  World &w = *W;
  w.loop_entered = true;
  if (wi->nready > 0) return 20;
  // nothing ready: a real loop would now block.  Let the other threads run until they all block or finish; the loop
  // wakes up early only if that made one of its fds ready (probed with poll(2) on the epoll fd, which does not
  // consume edge-triggered readiness) -- NOT merely because somebody else ran.
  sched_run_others();
  { struct pollfd p = {wi->epfd, POLLIN, 0}; if (__real_poll(&p, 1, 0) > 0 && (p.revents & POLLIN)) return 0; }
  if (wi->timeout_us == 0) return 0;               // a zero-timeout poll (callbacks are active): the loop is not going to sleep
  // truly idle -> about to sleep for the requested timeout
  w.idle_sleeps++;
  CHECK(sched_cond_waiters() == 0, "C09/cond-waiter-never-woken", "the loop is idle (no callback running) but %d thread(s) still wait on a condition for a callback to finish", sched_cond_waiters());
  int64_t now = sim_now_us();
  for (int i = 0; i < NA; i++) CHECK(!w.want[i], "C09/lost-wakeup-activation", "loop goes to sleep (timeout %lld us) while a cross-thread event_active(A%d) is still unserved", (long long)wi->timeout_us, i);
  if (!w.use_break) CHECK(!w.exit_requested, "C09/lost-wakeup-loopexit", "loop goes to sleep (timeout %lld us) although loopexit was called from another thread", (long long)wi->timeout_us);
  else CHECK(!w.exit_requested, "C09/lost-wakeup-loopbreak", "loop goes to sleep (timeout %lld us) although loopbreak was called from another thread", (long long)wi->timeout_us);
  int64_t earliest = -1;
  struct event *evs[ND + 1]; for (int i = 0; i < ND; i++) evs[i] = w.D[i]; evs[ND] = w.K;
  for (auto *e : evs) { struct timeval tv; if (e && event_pending(e, EV_TIMEOUT, &tv) && !(e->ev_flags & EVLIST_ACTIVE)) { int64_t d = (int64_t)tv.tv_sec * 1000000 + tv.tv_usec - SIM_WALL_OFFSET_US; if (earliest < 0 || d < earliest) earliest = d; } }
  if (wi->timeout_us < 0) {
    CHECK(earliest < 0, "C09/lost-wakeup-timer", "loop sleeps forever although a timer added from another thread is pending");
    if (w.workers_done) sched_unpark(0);
    event_base_loopbreak(w.base); return 0;
  }
  if (earliest >= 0) { int64_t maxwait = earliest > now ? earliest - now : 0;
    CHECK(wi->timeout_us <= maxwait + 1000, "C09/lost-wakeup-timer", "loop sleeps %lld us although a timer (added from another thread) is due in %lld us", (long long)wi->timeout_us, (long long)maxwait); }
  if (w.workers_done) sched_unpark(0);
  return wi->timeout_us;
}

void loop_thread(void *) { W->loop_ret = event_base_loop(W->base, 0); W->loop_done = true; }

void worker(void *arg) {
  int me = (int)(intptr_t)arg; World &w = *W;   // me = 1 or 2; owns D[me-1]
  int d = me - 1; char rec[16];
  for (auto &op : w.script[me]) {
    w.cross_calls++;
    switch (op.k) {
      case O_ACTIVE_A: w.want[op.i] = true; event_active(w.A[op.i], EV_READ, 1); break;
      case O_ADD_D: { struct timeval tv = {0, 1000 * (1 + op.n % 50)}; w.deleted[d] = false; int r = event_add(w.D[d], &tv); CHECK(r == 0, "C09/add-failed", "event_add=%d", r); break; }
      case O_DEL_D: case O_DELBLOCK_D: {
        if (w.in_cb[d]) w.del_during_cb++;
        int r = op.k == O_DEL_D ? event_del(w.D[d]) : event_del_block(w.D[d]);
        CHECK(r == 0, "C09/del-failed", "event_del=%d", r);
        CHECK(!w.in_cb[d], "C09/del-returned-while-callback-running", "%s(D%d) returned in worker %d while the callback is still running in the loop thread", op.k == O_DEL_D ? "event_del" : "event_del_block", d, me);
        w.deleted[d] = true; break; }
      case O_DELNOBLOCK_D: event_del_noblock(w.D[d]); break;          // documented not to wait: no claim
      case O_ACTIVE_D: w.deleted[d] = false; event_active(w.D[d], EV_WRITE, 1); break;
      case O_BEV_WRITE: if (me == 1) { std::string chunk; for (int k = 0; k < op.n; k++) chunk.push_back((char)('a' + (w.sent.size() + k) % 23)); w.sent += chunk; int r = bufferevent_write(w.pa, chunk.data(), chunk.size()); CHECK(r == 0, "C09/bev-write-failed", "r=%d", r); } break;
      case O_BUF_ADD: snprintf(rec, sizeof rec, "W%d%06d\n", me, w.added[me]++); evbuffer_add(w.shared, rec, 9); break;
      case O_YIELD: sched_yield_point(); break;
    }
  }
}
}  // namespace

extern "C" int LLVMFuzzerInitialize(int *, char ***) { sim_mem_install(); sched_install(); event_set_log_callback([](int, const char *) {}); return 0; }

extern "C" int LLVMFuzzerTestOneInput(const uint8_t *data, size_t size) {
  sim_reset();
  verif_case_begin("C09");
  Src s(data, size);
  World w; W = &w; w.s = &s; memset((void *)w.want, 0, sizeof w.want); memset((void *)w.in_cb, 0, sizeof w.in_cb); memset((void *)w.deleted, 0, sizeof w.deleted);
  memset(w.cb_count_A, 0, sizeof w.cb_count_A); memset(w.cb_count_D, 0, sizeof w.cb_count_D); memset(w.added, 0, sizeof w.added);
  // scripts are drawn up-front so that their content does not depend on the schedule
  for (int t = 1; t <= 2; t++) { int n = 1 + s.below(10); for (int k = 0; k < n; k++) { Op o; o.k = 1 + s.below(O__N - 1); o.i = s.below(NA); o.n = 1 + s.below(200); w.script[t].push_back(o); } }
  w.use_break = s.chance(1, 4);
  int bevopt = BEV_OPT_THREADSAFE | (s.flag() ? BEV_OPT_DEFER_CALLBACKS : 0);
  sim_clock_enable(SIM_START_US); sim_set_wait_hook(wait_hook, nullptr); sim_set_wait_limit(20000);
  sched_begin(&s);
  int64_t live0 = sim_mem_live_blocks;
  struct event_config *cfg = event_config_new();
  // epoll variants only: on poll/select this tree never drains the wake-up eventfd (it relies on EV_ET), so after the
  // first cross-thread notification the loop never sleeps again and the "about to sleep" oracle would be vacuous there.
  int backend = s.below(2); if (backend == 1) event_config_set_flag(cfg, EVENT_BASE_FLAG_EPOLL_USE_CHANGELIST);
  w.base = event_base_new_with_config(cfg); event_config_free(cfg);
  TR("backend=%s break=%d bevopt=0x%x", event_base_get_method(w.base), w.use_break, bevopt);
  for (int t = 1; t <= 2; t++) { std::string d; for (auto &o : w.script[t]) { char b[32]; snprintf(b, sizeof b, " %d/%d/%d", o.k, o.i, o.n); d += b; } TR("W%d script:%s", t, d.c_str()); }
  for (int i = 0; i < NA; i++) w.A[i] = event_new(w.base, -1, 0, a_cb, (void *)(intptr_t)i);
  for (int i = 0; i < ND; i++) w.D[i] = event_new(w.base, -1, EV_PERSIST, d_cb, (void *)(intptr_t)i);
  w.K = event_new(w.base, -1, EV_PERSIST, k_cb, nullptr); { struct timeval far = {1000, 0}; event_add(w.K, &far); }
  struct bufferevent *pr[2]; if (bufferevent_pair_new(w.base, bevopt, pr)) abort(); w.pa = pr[0]; w.pb = pr[1];
  bufferevent_setcb(w.pb, pb_read, nullptr, pb_event, nullptr); bufferevent_enable(w.pb, EV_READ); bufferevent_enable(w.pa, EV_WRITE);
  w.shared = evbuffer_new(); evbuffer_enable_locking(w.shared, nullptr);

  int L = sched_spawn(loop_thread, nullptr);
  int w1 = sched_spawn(worker, (void *)(intptr_t)1), w2 = sched_spawn(worker, (void *)(intptr_t)2);
  sched_wait_thread(w1); sched_wait_thread(w2);
  // loopbreak/loopexit are only claimed to work on a RUNNING loop (event_base_loop resets both flags when it starts), and
  // the controller must not mask a lost timer wake-up by notifying the loop itself right away: it parks until the loop
  // has gone to sleep once with all workers finished.
  w.workers_done = true; sched_park();
  w.exit_requested = true;
  if (w.use_break) event_base_loopbreak(w.base); else event_base_loopexit(w.base, nullptr);
  sched_wait_thread(L);
  w.exit_requested = false;
  sched_join_all();
  TR("waits=%llu loop returned %d; switches=%llu idle_sleeps=%llu del_during_cb=%llu A=%d/%d D=%d/%d", (unsigned long long)sim_wait_count, w.loop_ret, (unsigned long long)sched_switches(), (unsigned long long)w.idle_sleeps, (unsigned long long)w.del_during_cb, w.cb_count_A[0], w.cb_count_A[1], w.cb_count_D[0], w.cb_count_D[1]);
  CHECK(w.loop_ret == 0, "C09/loop-return", "event_base_loop returned %d", w.loop_ret);
  if (!w.use_break) for (int i = 0; i < NA; i++) CHECK(!w.want[i], "C09/activation-never-ran", "event_active(A%d) from a worker never led to a callback before loopexit completed", i);
  event_base_assert_ok_(w.base);
  // single-threaded from here on: flush what is still in flight and compare the streams
  sim_set_wait_hook(nullptr, nullptr);
  for (int i = 0; i < ND; i++) event_del(w.D[i]);
  for (int k = 0; k < 4; k++) event_base_loop(w.base, EVLOOP_NONBLOCK);
  CHECK(w.recv == w.sent, "C09/bev-stream-corrupt", "bytes read from the pair (%zu) differ from bytes written by the worker (%zu)", w.recv.size(), w.sent.size());
  { int seen[3] = {0, 0, 0}; size_t n; char *line;
    while ((line = evbuffer_readln(w.shared, &n, EVBUFFER_EOL_LF))) { int id = line[1] - '0'; bool ok = n == 8 && line[0] == 'W' && (id == 1 || id == 2) && atoi(line + 2) == seen[id]; std::string l(line, n); sim_mem_free(line);
      CHECK(ok, "C09/evbuffer-record-torn", "record \"%s\" out of sequence or torn", esc(l).c_str()); seen[id]++; }
    CHECK(seen[1] == w.added[1] && seen[2] == w.added[2] && evbuffer_get_length(w.shared) == 0, "C09/evbuffer-records-lost", "records %d/%d, expected %d/%d, leftover %zu", seen[1], seen[2], w.added[1], w.added[2], evbuffer_get_length(w.shared)); }
  bufferevent_free(w.pa); bufferevent_free(w.pb); evbuffer_free(w.shared);
  for (auto *e : w.A) event_free(e); for (auto *e : w.D) event_free(e); event_free(w.K);
  event_base_loop(w.base, EVLOOP_NONBLOCK);
  event_base_free(w.base);
  sched_end();
  CHECK(sim_mem_live_blocks == live0, "C09/leak", "library blocks outstanding: %lld", (long long)(sim_mem_live_blocks - live0));
  int nontrivial = sched_preemptions_after_unlock() > 0 && (w.cb_count_A[0] + w.cb_count_A[1] + w.cb_count_D[0] + w.cb_count_D[1]) > 0;
  if (w.del_during_cb) verif_class("del_while_callback_running"); if (w.idle_sleeps) verif_class("loop_slept"); if (sched_preemptions_after_unlock()) verif_class("preempted_between_unlock_and_lock");
  verif_class_n("switches", sched_switches());
  verif_case_end(nontrivial, s.h);
  W = nullptr;
  return 0;
}
