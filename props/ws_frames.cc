// C31 — incoming WebSocket client frames are decoded into exactly the messages an RFC 6455 reference decoder
// (refs/ws6455.hh) produces; nothing is delivered after close; failures close without partial delivery;
// independent of how the byte stream is split into reads.
// World: refs/ws_world.hh (evhttp + evws_new_session behind an AF_UNIX abstract listener, one connection per case).
// After every segment the loop is run to quiescence and the deliveries / close state are compared with the
// reference applied to the bytes sent so far (every prefix of a frame sequence is itself a frame sequence).
// Preconditions respected: the client waits for the 101 response before sending frames (RFC 6455 §4.1);
// TEXT payloads are printable ASCII (UTF-8 validation is outside the property statement); the message callback
// only records, or calls evws_close() once.
#include "verif.h"
#include "sim.h"
#include "ws_world.hh"
#include "ws6455.hh"
#include <algorithm>

using namespace wsw;
using namespace ws6455;

namespace {
const uint64_t LIMIT = 10485760;   // ws.c: "We limit the size of received WS frames to 10 MiB"
const char K_FINAL[] = "C31/final-continuation-rejected";
const char K_DATAIN[] = "C31/data-frame-inside-message-appended";
const char K_ORPHAN[] = "C31/orphan-continuation-accepted";
const char K_AFTER[] = "C31/parse-continues-after-close";
const char K_FRAGCTL[] = "C31/fragmented-control-accepted";

static inline bool rare(Src &s, uint32_t den) { return s.below(den) == den - 1; }   // false when the input is exhausted
struct GFrame { size_t start, len_end, hdr_end, end; };
struct Gen {
  Src &s; std::string out; std::vector<GFrame> fr; bool in_msg = false; int big = 0; bool stop = false;
  bool k_final, k_datain, k_orphan, k_fragctl;
  explicit Gen(Src &src) : s(src) {
    k_final = verif_known(K_FINAL); k_datain = verif_known(K_DATAIN); k_orphan = verif_known(K_ORPHAN); k_fragctl = verif_known(K_FRAGCTL);
  }
  std::string payload(bool text, size_t n) {
    std::string p;
    if (n <= 16) { p = s.bytes(n); } else p = filler(s.u32(), n, false);
    if (text) for (auto &c : p) c = (char)(0x20 + (uint8_t)c % 95);
    return p;
  }
  size_t data_len() {
    switch (s.below(14)) {
      case 0: return 0; case 1: return 1 + s.below(16); case 2: return 125; case 3: return 126; case 4: return 127 + s.below(200);
      case 5: if (big < 2 && rare(s, 3)) { big++; return 65535; } return 124;
      case 6: if (big < 2 && rare(s, 3)) { big++; return 65536 + s.below(3); } return 3;
      case 7: return 17 + s.below(108);
      case 8: if (big < 2 && rare(s, 4)) { big++; return 4000 + s.below(5000); } return 2;
      default: return s.below(9);
    }
  }
  void emit(bool fin, uint8_t opcode, const std::string &p, uint64_t declared, int force_bits, bool allow_mods) {
    uint8_t mod = s.byte(); bool masked = (mod & 3) != 0; uint8_t rsv = 0; uint8_t mask[4];
    uint32_t mk = (mod & 4) ? s.u32() : 0x5aa5c33cu; if ((mod & 0x18) == 0x18) mk = 0;
    mask[0] = mk >> 24; mask[1] = mk >> 16; mask[2] = mk >> 8; mask[3] = mk;
    int bits = declared <= 125 ? 7 : declared <= 65535 ? 16 : 64;
    if (allow_mods && (mod >> 5) == 7) { bits = bits == 7 ? (s.flag() ? 16 : 64) : 64; }       // non-minimal length form (may-fail)
    if (allow_mods && (mod >> 5) == 6) rsv = (uint8_t)(1 + s.below(7));                          // RSV bits (may-fail)
    if (force_bits) bits = force_bits;
    GFrame g; g.start = out.size();
    encode(out, fin, rsv, opcode, masked, mask, bits, declared, p);
    g.len_end = g.start + 2 + (bits == 16 ? 2 : bits == 64 ? 8 : 0); g.hdr_end = g.len_end + (masked ? 4 : 0); g.end = out.size();
    fr.push_back(g);
    TR("frame#%zu @%zu fin=%d rsv=%d op=%d masked=%d bits=%d declared=%llu payload=%zu %s", fr.size() - 1, g.start, fin, rsv, opcode, masked, bits,
       (unsigned long long)declared, p.size(), hexs(p.data(), p.size(), 12).c_str());
  }
  void data_frame(bool fin, uint8_t opcode) { bool text = opcode == OP_TEXT; std::string p = payload(text, data_len()); emit(fin, opcode, p, p.size(), 0, true); }
  // one generated frame; returns false on "end of sequence"
  bool step() {
    int kind = s.below(16);
    if (kind == 0) return false;
    // steer around sub-domains excluded because of known findings
    if ((kind == 1 || kind == 2 || kind == 3) && in_msg && k_datain) { kind = 4; verif_known_skipped(K_DATAIN); }
    if (kind == 5 && in_msg && k_final) { kind = 4; verif_known_skipped(K_FINAL); }
    if (kind == 4 && !in_msg && k_orphan) { kind = 3; verif_known_skipped(K_ORPHAN); }
    if (kind == 11 && k_fragctl) { kind = 6; verif_known_skipped(K_FRAGCTL); }
    if (kind >= 14) {   // "what a conformant client would send next"
      if (in_msg) { kind = (s.flag() && !k_final) ? 5 : 4; if (kind == 4 && k_final) verif_known_skipped(K_FINAL); }
      else kind = 1 + s.below(3);
    }
    switch (kind) {
      case 1: data_frame(true, OP_TEXT); break;
      case 2: data_frame(true, OP_BIN); break;
      case 3: data_frame(false, s.flag() ? OP_TEXT : OP_BIN); in_msg = true; break;
      case 4: data_frame(false, OP_CONT); break;                // without a message to continue: must-fail
      case 5: data_frame(true, OP_CONT); in_msg = false; break;
      case 6: case 7: { std::string p = payload(false, s.below(3) ? s.below(10) : s.below(126)); emit(true, kind == 6 ? OP_PING : OP_PONG, p, p.size(), 0, true); break; }
      case 8: { std::string p; int f = s.below(4);
        if (f == 1) { uint16_t c = 1000 + s.below(12); p.push_back((char)(c >> 8)); p.push_back((char)c); }
        else if (f == 2) { p = "\x03\xe8" "bye"; } else if (f == 3) p = payload(false, s.below(126));
        emit(true, OP_CLOSE, p, p.size(), 0, true); break; }
      case 9: { static const uint8_t R[] = {3, 4, 5, 6, 7, 0xb, 0xc, 0xd, 0xe, 0xf}; std::string p = payload(false, s.below(20)); emit(s.below(4) != 0, s.pick(R), p, p.size(), 0, true); break; }
      case 10: { static const uint64_t BIG[] = {LIMIT + 1, LIMIT + 2, 1ull << 24, 1ull << 32, (1ull << 32) + 5, 0x7fffffffffffffffull, 0x8000000000000000ull, 0xffffffffffffffffull, 0xfffffffffffffff0ull};
        uint64_t d = rare(s, 4) ? LIMIT + 1 + s.below(100000) : s.pick(BIG);
        static const uint8_t OPS[] = {OP_TEXT, OP_BIN, OP_PING, OP_CONT}; uint8_t op = s.pick(OPS); if (op == OP_CONT && !in_msg) op = OP_BIN; if (op != OP_CONT && op != OP_PING && in_msg) op = OP_CONT;
        std::string p = payload(false, s.below(12)); emit(op == OP_PING ? true : s.flag(), op, p, d, 64, false); break; }
      case 11: { std::string p = payload(false, s.below(10)); static const uint8_t C[] = {OP_PING, OP_PONG}; emit(false, s.pick(C), p, p.size(), 0, true); break; }
      case 12: {  // declared length exactly at (or just under) the limit, only a little of the payload present: must stay open, undelivered
        uint64_t d = s.flag() ? LIMIT : LIMIT - 1 - s.below(100); uint8_t op = in_msg ? OP_CONT : (s.flag() ? OP_TEXT : OP_BIN);
        std::string p = payload(false, s.below(40)); emit(s.flag(), op, p, d, 64, false); stop = true; break; }
      case 13: { std::string p = payload(false, 126 + s.below(100)); emit(true, s.flag() ? OP_PING : OP_PONG, p, p.size(), 0, true); break; }
    }
    return !stop;
  }
};

bool same(const Delivered &d, const Msg &m) { return d.type == m.type && d.data == m.data; }

// compare what the server did with the reference applied to stream[0..sent)
Result check_prefix(World &w, const std::string &stream, size_t sent, size_t close_after, const char *when) {
  Result R = decode((const uint8_t *)stream.data(), sent, LIMIT, close_after);
  size_t ng = w.got.size(), nr = R.msgs.size(); bool closed = w.close_cb_calls > 0;
  CHECK(w.deliveries_after_close_cb == 0, "C31/delivery-after-close-callback", "%s: on_msg ran after the close callback", when);
  for (size_t i = 0; i < ng && i < nr; i++)
    CHECK(same(w.got[i], R.msgs[i]), "C31/message-mismatch", "%s (%zu bytes sent): message %zu delivered as type=%d len=%zu %s, reference type=%d len=%zu %s (%d frames)", when, sent, i,
          w.got[i].type, w.got[i].data.size(), hexs(w.got[i].data.data(), w.got[i].data.size(), 16).c_str(), R.msgs[i].type, R.msgs[i].data.size(),
          hexs(R.msgs[i].data.data(), R.msgs[i].data.size(), 16).c_str(), R.msgs[i].nframes);
  // allowed outcomes
  bool ok = false;
  if (R.terminated) ok = ng == nr && closed;
  else ok = ng == nr && (!closed || (R.trailing_partial && R.trailing_early != R_NONE));
  for (auto &mp : R.may) if (closed && ng == mp.msgs_before) ok = true;   // a receiver may fail the connection at a may-fail frame
  if (ok) return R;
  std::string ctx = std::string(when) + ": " + std::to_string(sent) + " bytes sent, reference: " + std::to_string(nr) + " message(s), " +
      (R.terminated ? std::string("terminated at frame ") + std::to_string(R.term_frame) + " (" + reason_name(R.why) + ")" : std::string(R.in_msg ? "open, message unfinished" : "open")) +
      "; server: " + std::to_string(ng) + " message(s), " + (closed ? "closed" : "open");
  if (ng > nr) {
    const Delivered &x = w.got[nr];
    std::string extra = " first extra: type=" + std::to_string(x.type) + " len=" + std::to_string(x.data.size()) + " " + hexs(x.data.data(), x.data.size(), 16);
    if (R.in_msg && !R.pending.empty() && x.data == R.pending)
      VERIF_FAIL("C31/partial-message-delivered", "%s; the unfinished fragmented message was delivered;%s", ctx.c_str(), extra.c_str());
    if (R.terminated) switch (R.why) {
      case R_DATA_IN_MESSAGE: VERIF_FAIL(K_DATAIN, "%s;%s", ctx.c_str(), extra.c_str());
      case R_ORPHAN_CONT: VERIF_FAIL(K_ORPHAN, "%s;%s", ctx.c_str(), extra.c_str());
      case R_FRAGMENTED_CONTROL: VERIF_FAIL(K_FRAGCTL, "%s;%s", ctx.c_str(), extra.c_str());
      default: VERIF_FAIL(K_AFTER, "%s;%s", ctx.c_str(), extra.c_str());
    }
    VERIF_FAIL("C31/phantom-message", "%s;%s", ctx.c_str(), extra.c_str());
  }
  if (ng < nr) {
    const Msg &m = R.msgs[ng];
    if (closed && m.nframes >= 2) VERIF_FAIL(K_FINAL, "%s; first missing message: type=%d len=%zu sent as %d frames, ending in frame %zu", ctx.c_str(), m.type, m.data.size(), m.nframes, m.last_frame);
    VERIF_FAIL(closed ? "C31/closed-on-valid-frame" : "C31/message-not-delivered", "%s; first missing message: type=%d len=%zu (%d frame(s), last frame %zu)", ctx.c_str(), m.type, m.data.size(), m.nframes, m.last_frame);
  }
  if (R.terminated && !closed) switch (R.why) {
    case R_DATA_IN_MESSAGE: VERIF_FAIL(K_DATAIN, "%s", ctx.c_str());
    case R_ORPHAN_CONT: VERIF_FAIL(K_ORPHAN, "%s", ctx.c_str());
    case R_FRAGMENTED_CONTROL: VERIF_FAIL(K_FRAGCTL, "%s", ctx.c_str());
    default: VERIF_FAIL("C31/not-closed", "%s", ctx.c_str());
  }
  VERIF_FAIL("C31/closed-on-valid-frame", "%s", ctx.c_str());
}
}  // namespace

extern "C" int LLVMFuzzerInitialize(int *, char ***) { init_once(); return 0; }

extern "C" int LLVMFuzzerTestOneInput(const uint8_t *data, size_t size) {
  sim_reset();
  verif_case_begin("C31");
  Src s(data, size);
  World w; w.prop = "C31";
  if (!open_world(w, "wsframes")) VERIF_FAIL("harness/world-setup", "could not create base/http/listener/client: %s", strerror(errno));
  std::string head;
  bool hs = handshake(w, "GET /ws HTTP/1.1\r\nHost: verif\r\nUpgrade: websocket\r\nConnection: Upgrade\r\nSec-WebSocket-Key: dGhlIHNhbXBsZSBub25jZQ==\r\nSec-WebSocket-Version: 13\r\n\r\n", head);
  CHECK(hs && status_of(head) == 101 && w.sessions == 1 && w.evws, "harness/handshake-rejected", "upgrade failed: status %d sessions=%d", hs ? status_of(head) : -1, w.sessions);

  // ---- generate the frame sequence
  const bool k_after = verif_known(K_AFTER);
  size_t close_after = rare(s, 8) ? 1 + s.below(3) : 0;
  w.user_close_after = close_after; w.user_close_code = 1000;
  Gen g(s);
  for (int i = 0; i < 12 && g.out.size() < 150000; i++) if (!g.step()) break;
  std::string stream = g.out;
  if (!g.fr.empty() && !g.stop && rare(s, 6)) {   // cut the last frame short
    const GFrame &l = g.fr.back(); size_t fl = l.end - l.start; size_t drop = 1 + s.below((uint32_t)(fl > 1 ? fl - 1 : 1)); if (drop > fl) drop = fl;
    stream.resize(stream.size() - drop); TR("truncate last frame by %zu", drop);
  }
  size_t total = stream.size();

  // ---- segmentation
  std::vector<size_t> cuts;   // segment end offsets, ascending, last == total
  int mode = s.below(6);
  if (mode == 2 && total > 400) mode = 3;
  switch (mode) {
    case 0: break;
    case 1: for (auto &f : g.fr) if (f.end < total) cuts.push_back(f.end); break;
    case 2: for (size_t i = 1; i < total; i++) cuts.push_back(i); break;
    case 3: { size_t off = 0; for (int k = 0; k < 64 && off < total; k++) { off += 1 + s.below(s.flag() ? 8 : 300); if (off < total) cuts.push_back(off); } break; }
    case 4: for (auto &f : g.fr) if (s.flag()) { size_t c[] = {f.start + 1, f.len_end - 1, f.len_end, f.hdr_end - 1, f.hdr_end, f.hdr_end + 1, f.end - 1, f.end};
              size_t n1 = c[s.below(8)], n2 = c[s.below(8)]; if (n1 > n2) std::swap(n1, n2);
              if (n1 > f.start && n1 < total) cuts.push_back(n1); if (n2 > n1 && n2 < total) cuts.push_back(n2); } break;
    case 5: if (total > 1) cuts.push_back(1 + s.below((uint32_t)(total - 1))); break;
  }
  Result full = decode((const uint8_t *)stream.data(), total, LIMIT, close_after);
  if (k_after && full.terminated && full.term_end < total) {
    // known finding: bytes that follow the closing frame in the same read are still parsed -> force a read boundary there
    bool have = false; for (size_t c : cuts) if (c == full.term_end) have = true;
    if (!have) { cuts.push_back(full.term_end); verif_known_skipped(K_AFTER); }
  }
  cuts.push_back(total);
  std::sort(cuts.begin(), cuts.end()); cuts.erase(std::unique(cuts.begin(), cuts.end()), cuts.end());
  while (!cuts.empty() && cuts.back() > total) cuts.pop_back();
  if (cuts.empty() || cuts.back() != total) cuts.push_back(total);

  // ---- play
  size_t sent = 0; bool cut_in_header = false, cut_in_payload = false;
  for (size_t c : cuts) {
    if (c > sent) {
      TR("segment [%zu,%zu)", sent, c);
      for (auto &f : g.fr) { if (c > f.start && c < f.hdr_end) cut_in_header = true; if (c > f.hdr_end && c < f.end) cut_in_payload = true; }
      bool okw = client_write(w, stream.data() + sent, c - sent);
      if (!okw) { TR("peer gone while writing"); sent = c; pump(w); break; }   // the server has closed: the reference must agree at the end
      sent = c;
    }
    pump(w);
    check_prefix(w, stream, sent, close_after, "after segment");
  }
  Result R = check_prefix(w, stream, sent, close_after, "at end");

  // bytes written back: only well-formed unmasked control frames (the harness's message callback sends nothing)
  { const uint8_t *b = (const uint8_t *)w.rx.data(); size_t n = w.rx.size(), off = 0;
    while (off < n) { Frame f; ParseStatus ps = parse_frame(b, n, off, ~0ull >> 1, f);
      CHECK(ps == P_OK && f.fin && !f.masked && is_control(f.opcode) && !is_reserved(f.opcode), "C31/server-bytes-malformed", "server wrote %zu bytes that are not whole unmasked control frames: %s", n, hexs(b, n, 32).c_str());
      off = f.end; } }
  // a client that simply disappears must not cause a partial message to be delivered
  size_t ng_before = w.got.size(); bool eof_sent = false;
  if (w.close_cb_calls == 0 && s.flag()) { TR("client closes its socket"); eof_sent = true; close(w.cfd); w.cfd = -1; w.peer_gone = true; pump(w);
    CHECK(w.got.size() == ng_before, "C31/partial-delivery-at-eof", "%zu message(s) delivered when the client disconnected (unfinished message pending=%d)", w.got.size() - ng_before, R.in_msg); }
  close_world(w, "C31/leak", "C31/fd-leak");
  CHECK(w.got.size() == ng_before, "C31/delivery-at-teardown", "message delivered during teardown");
  CHECK(w.close_cb_calls == 1, "C31/close-cb-count", "close callback ran %d times over the session's life", w.close_cb_calls);

  // ---- classes / non-trivial rule
  size_t nframes = R.frames.size();
  if (!R.msgs.empty()) verif_class("delivered");
  bool frag_done = false; for (auto &m : R.msgs) if (m.nframes >= 2) frag_done = true;
  if (frag_done) verif_class("fragmented_delivered");
  if (R.in_msg) verif_class("message_unfinished_at_end");
  if (R.ctrl_inside_msg) verif_class("control_inside_message");
  if (R.terminated) { verif_class("terminated"); std::string c = std::string("term_") + reason_name(R.why); verif_class(c.c_str()); if (R.term_end < total) verif_class("bytes_after_terminal"); }
  if (!R.may.empty()) verif_class("may_fail_frame");
  if (R.trailing_partial) verif_class("trailing_partial");
  if (cut_in_header) verif_class("cut_in_header"); if (cut_in_payload) verif_class("cut_in_payload");
  if (cuts.size() > 1) verif_class("multi_segment");
  if (eof_sent) verif_class("client_eof");
  if (close_after && w.user_closed) verif_class("user_close");
  for (auto &f : R.frames) { if (f.lenbits == 16) verif_class("len16"); if (f.lenbits == 64) verif_class("len64"); if (!f.masked) verif_class("unmasked"); }
  int nontrivial = nframes >= 2 && (!R.msgs.empty() || R.terminated) && (cuts.size() > 1 || R.ctrl_inside_msg || R.in_msg || frag_done || R.terminated);
  verif_case_end(nontrivial, s.h);
  return 0;
}
