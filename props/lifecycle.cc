// C10 — objects are finalized exactly once and never used after release.
// One world per case: events (event_new or caller-owned storage; timer / pipe read / pipe write / signal kinds;
// EV_PERSIST, EV_FINALIZE), event_base_once events, bufferevents (pair, socket on a socketpair, filter, stacked
// filter; CLOSE_ON_FREE, DEFER_CALLBACKS, THREADSAFE, UNLOCK_CALLBACKS), standalone evbuffers with callbacks
// (immediate or deferred), one evconnlistener on an abstract AF_UNIX address.  The history activates them and
// releases each of them at every position: outside the loop, inside its own callback, inside another object's
// callback, before event_base_free / event_base_free_nofinalize (with or without a loop turn in between).
// A callback performs a sequence of up to 3 steps (reconfigure = stop/restart/re-point a live object, release, activate), so
// "disable, then free" / "activate, then free" inside one callback are covered; the same reconfiguration calls are issued outside the
// loop; the listener also has an error callback, reached through a scripted accept() failure.
// Widened domain (half of the cases): a herd of 40 standalone deferred evbuffers that one op writes all at once (more deferred callbacks
// in one loop iteration than the base queues directly, so the tail is parked for a later iteration), from a callback or outside the
// loop, and callbacks that leave / restart the loop (event_base_loopbreak, event_base_loopcontinue); the herd is drained by complete
// turns and freed before the base.  These choices are derived from the hash of the choices decoded so far (no new draws).
// Oracle: see props/C10.json.  Preconditions respected (documented or what every caller relies on):
//  * nothing bound to a base is touched after the base is freed (only caller-owned event storage and
//    non-deferred evbuffers are released afterwards);
//  * finalizer callbacks and filter functions do not add/activate/release anything;
//  * a non-deferred evbuffer is not freed from inside its own callback (evbuffer_add & co. keep using it);
//  * an event being finalized is not touched again; the underlying of a CLOSE_ON_FREE filter is not freed by the
//    caller after the filter was freed; at most one filter per underlying; no fd is closed while registered.
#include "verif.h"
#include "sim.h"
#include <errno.h>
#include <fcntl.h>
#include <signal.h>
#include <unistd.h>
#include <sys/socket.h>
#include <sys/stat.h>
#include <sys/un.h>
#include <sys/syscall.h>
#include <event2/event.h>
#include <event2/event_struct.h>
#include <event2/buffer.h>
#include <event2/bufferevent.h>
#include <event2/bufferevent_struct.h>
#include <event2/listener.h>
#include <event2/thread.h>
#include <event2/util.h>
extern "C" {
#include "event-internal.h"
#include "util-internal.h"
#include "bufferevent-internal.h"
void __lsan_disable(void);
void __lsan_enable(void);
}

namespace {
const int NEV = 8, NONCE = 4, NBEV = 5, NBUF = 2, NHERD = 40;
enum { ST_NONE = 0, ST_ALIVE, ST_FINALIZING, ST_DEAD };
enum { K_EV = 0, K_BEV, K_BUF, K_LEV, K_ONCE, K_NONE };
enum { EK_TIMER = 0, EK_PIPE_R, EK_PIPE_W, EK_SIGNAL };

struct EvS {
  struct event *ev = nullptr; void *storage = nullptr; bool own = false; int kind = 0; bool persist = false; bool evfinalize = false;
  int st = ST_NONE; int cbs = 0, fins = 0, in_cb = 0, fires_left = 0; bool free_in_fin = false; bool left_pending = false;
};
struct OnceS { int st = 0; /* 0 none, 1 pending, 2 ran */ bool immediate = false; int runs = 0; };
struct FCtx { int slot = -1; int calls = 0, freed = 0, in = 0; };
struct BevS {
  struct bufferevent *bev = nullptr; int type = 0; /* 0,1 pair ends; 2 socket; 3 filter */ int st = ST_NONE; bool released = false;
  int opts = 0; int fd = -1, peer = -1; ino_t ino = 0; bool cof = false; int under = -1, over = -1;
  int cbs = 0, in_cb = 0, bufcbs = 0, in_bufcb = 0; bool peer_closed = false; bool closed_seen = false; bool stacked = false; bool has_bufcb = false;
  FCtx ctx;
};
struct BufS { struct evbuffer *b = nullptr; int st = ST_NONE; bool deferred = false; int cbs = 0, in_cb = 0; bool sched = false; /* a deferred run may be scheduled */ bool tolerate = false; };
struct LevS { struct evconnlistener *l = nullptr; int st = ST_NONE; bool cof = false; int fd = -1; ino_t ino = 0; int cbs = 0, errcbs = 0, in_cb = 0; int clients[4]; int nclients = 0; bool closed_seen = false; };

struct HerdS { struct evbuffer *b[NHERD]; int added[NHERD], seen[NHERD], runs[NHERD]; int kicks = 0; int st = ST_NONE; bool unclean = false; };

struct World {
  Src *s; HerdS herd; bool wide = false, closing = false, turn_broken = false, broke = false; int in_loop = 0; struct event_base *base = nullptr; int npri = 1;
  EvS ev[NEV]; OnceS once[NONCE]; BevS bev[NBEV]; BufS buf[NBUF]; LevS lev;
  int pipes[2][2] = {{-1, -1}, {-1, -1}};
  int acts_left = 14, depth = 0; int in_fin = 0;
  bool base_freeing = false, base_freed = false, nofin = false, dirty = false;
  int turn_waits = 0; bool turn_capped = false;
  int rel_in_own_cb = 0, rel_in_other_cb = 0, rel_outside = 0, pending_at_free = 0, fin_by_loop = 0, fin_by_base_free = 0, total_cbs = 0;
  int once_never = 0;
  bool force = false; bool defer_risk = false;   // a bufferevent's deferred callback (it holds a reference) may be scheduled: set by every bufferevent op / incomplete turn, cleared by a complete non-blocking turn
};
World *W;
const char *K_BUF_AFTER_FREE = "C10/evbuffer-callback-after-free";
const char *K_DEFER_LEAK = "C10/bev-with-deferred-callback-leaks-at-base-free";
const char *K_BEVBUF = "C10/bev-evbuffer-callback-after-free";
const char *K_REARM = "C10/bev-event-added-after-free";
const char *K_UAF_CANCEL = "asan:heap-use-after-free@event_base_cancel_single_callback_";
const char *K_UAF_SIGLOOP = "asan:heap-use-after-free@event_signal_closure";
int64_t g_expected_leak = 0;   // library blocks deliberately left behind by event_base_free_nofinalize (documented behaviour)
bool g_in_case = false;
char g_sockname[64]; int g_socknamelen;

// fd table via one directory listing (sim_fd_snapshot costs 1024 fcntl calls, more than the rest of the case)
struct FdTab { uint64_t w[16]; };
void fd_table(FdTab *t) {
  memset(t, 0, sizeof *t);
  int d = open("/proc/self/fd", O_RDONLY | O_DIRECTORY | O_CLOEXEC); if (d < 0) abort();
  alignas(8) char buf[8192];
  for (;;) { long n = syscall(SYS_getdents64, d, buf, sizeof buf); if (n <= 0) break;
    for (long off = 0; off < n;) { struct D64 { uint64_t ino; int64_t o; unsigned short reclen; unsigned char type; char name[1]; } *e = (D64 *)(buf + off);
      if (e->name[0] >= '0' && e->name[0] <= '9') { int fd = atoi(e->name); if (fd != d && fd < 1024) t->w[fd >> 6] |= 1ull << (fd & 63); }
      off += e->reclen; } }
  close(d);
}
int fd_table_diff(const FdTab *a, const FdTab *b) { for (int fd = 0; fd < 1024; fd++) if (((a->w[fd >> 6] ^ b->w[fd >> 6]) >> (fd & 63)) & 1) return fd; return -1; }
void ensure_pipe(int k) { if (W->pipes[k][0] < 0 && pipe2(W->pipes[k], O_NONBLOCK | O_CLOEXEC)) abort(); }
ino_t ino_of(int fd) { struct stat st; if (fstat(fd, &st)) return 0; return st.st_ino; }
bool same_open(int fd, ino_t ino) { struct stat st; return fstat(fd, &st) == 0 && st.st_ino == ino; }

void cb_action(int kind, int idx);
void reconfigure(int kind, int idx);
bool fully_released(int i);
bool release(int kind, int idx, int mode, int ctx_kind, int ctx_idx);
void activate(int kind, int idx);

// ------------------------------------------------------------------ events
void ev_fin(struct event *ev, void *arg) {
  int i = (int)(intptr_t)arg; EvS &e = W->ev[i];
  TR("  finalizer ev%d (st=%d fins=%d)%s", i, e.st, e.fins, W->base_freeing ? " [in base free]" : "");
  CHECK(!(e.st == ST_DEAD && e.fins > 0), "C10/finalizer-twice", "finalizer of event %d ran a second time", i);
  CHECK(e.st == ST_FINALIZING, "C10/finalizer-unexpected", "finalizer of event %d ran in state %d", i, e.st);
  CHECK(ev == e.ev, "C10/finalizer-wrong-event", "finalizer of event %d got another event pointer", i);
  CHECK(e.in_cb == 0, "C10/finalizer-before-last-callback", "finalizer of event %d ran while its callback was still running", i);
  CHECK(!(W->base_freeing && W->nofin), "C10/nofinalize-ran-finalizer", "event_base_free_nofinalize ran the finalizer of event %d", i);
  CHECK(!W->base_freed, "C10/finalizer-after-base-free", "finalizer of event %d ran after event_base_free returned", i);
  e.fins++; e.st = ST_DEAD;
  if (W->base_freeing) W->fin_by_base_free++; else W->fin_by_loop++;
  if (e.own && e.free_in_fin) {   // the canonical use: the finalizer frees the structure that embeds the event
    // known finding: event_base_free() reads the event again after its finalizer returned
    if (W->base_freeing && verif_known(K_UAF_CANCEL)) { verif_known_skipped(K_UAF_CANCEL); return; }
    free(e.storage); e.storage = nullptr; e.ev = nullptr; }
}

void ev_cb(evutil_socket_t fd, short what, void *arg) {
  int i = (int)(intptr_t)arg; EvS &e = W->ev[i];
  TR("  cb ev%d what=0x%x st=%d", i, what, e.st);
  CHECK(e.st == ST_ALIVE, "C10/event-callback-after-release", "callback of event %d ran in state %d (2=finalize requested, 3=freed/finalized)", i, e.st);
  CHECK(!W->base_freeing && !W->base_freed, "C10/callback-during-base-free", "callback of event %d ran from event_base_free", i);
  e.cbs++; W->total_cbs++; e.in_cb++;
  if (e.kind == EK_PIPE_R) { char c; (void)!read(fd, &c, 1); }
  if (--e.fires_left <= 0 && e.persist) event_del(e.ev);   // an always-ready persistent event would keep a NONBLOCK turn spinning
  cb_action(K_EV, i);
  e.in_cb--;
}

void do_ev_new(int i, Src &s) {
  EvS &e = W->ev[i]; if (e.st != ST_NONE) return;
  e.kind = s.below(4); e.persist = s.flag(); e.evfinalize = s.flag(); e.own = s.flag(); e.free_in_fin = s.flag(); e.fires_left = 1 + s.below(2);
  int k = s.below(2); int fd = -1; short what = 0;
  switch (e.kind) { case EK_TIMER: break; case EK_PIPE_R: ensure_pipe(k); fd = W->pipes[k][0]; what = EV_READ; break;
    case EK_PIPE_W: ensure_pipe(k); fd = W->pipes[k][1]; what = EV_WRITE; break; default: fd = k ? SIGUSR2 : SIGUSR1; what = EV_SIGNAL; break; }
  if (e.persist) what |= EV_PERSIST; if (e.evfinalize) what |= EV_FINALIZE;
  if (e.own) { e.storage = malloc(event_get_struct_event_size()); e.ev = (struct event *)e.storage; if (event_assign(e.ev, W->base, fd, what, ev_cb, (void *)(intptr_t)i)) abort(); }
  else { e.ev = event_new(W->base, fd, what, ev_cb, (void *)(intptr_t)i); if (!e.ev) abort(); }
  event_priority_set(e.ev, s.below(W->npri));
  e.st = ST_ALIVE;
  TR("new ev%d kind=%d persist=%d EV_FINALIZE=%d own_storage=%d", i, e.kind, e.persist, e.evfinalize, e.own);
}
void do_ev_add(int i, Src &s) {
  EvS &e = W->ev[i]; if (e.st != ST_ALIVE) return;
  struct timeval tv = {0, (long)s.below(3000)}; bool with_tv = e.kind == EK_TIMER || s.flag();
  int r = event_add(e.ev, with_tv ? &tv : nullptr); TR("add ev%d tv=%ld -> %d", i, with_tv ? tv.tv_usec : -1, r);
  CHECK(r == 0, "C10/add-failed", "event_add(ev%d)=%d", i, r);
}
void activate_ev(int i, Src &s) {
  EvS &e = W->ev[i]; if (e.st != ST_ALIVE) return;
  // known finding: event_active() on a signal event from inside its own callback forgets the running ncalls loop (ev_pncalls = NULL);
  // an event_del/event_free later in that callback no longer stops the loop, which then writes into the freed event
  if (e.kind == EK_SIGNAL && e.in_cb && verif_known(K_UAF_SIGLOOP)) { verif_known_skipped(K_UAF_SIGLOOP); return; }
  short res = e.kind == EK_SIGNAL ? EV_SIGNAL : e.kind == EK_PIPE_W ? EV_WRITE : e.kind == EK_PIPE_R ? EV_READ : EV_TIMEOUT;
  int n = 1 + s.below(3); TR("active ev%d ncalls=%d", i, n); event_active(e.ev, res, (short)n);
}
// mode 0: event_free / (own storage) event_del + free; mode 1: event_free_finalize / (own storage) event_finalize
bool release_ev(int i, int mode) {
  EvS &e = W->ev[i]; if (e.st != ST_ALIVE) return false;
  if (mode == 1) {
    e.st = ST_FINALIZING;
    int r = e.own ? event_finalize(0, e.ev, ev_fin) : event_free_finalize(0, e.ev, ev_fin);
    TR("%s(ev%d) -> %d", e.own ? "event_finalize" : "event_free_finalize", i, r);
    CHECK(r == 0, "C10/finalize-failed", "event_finalize(ev%d)=%d", i, r);
  } else {
    e.st = ST_DEAD;
    if (e.own) { TR("event_del + free storage (ev%d)", i); event_del(e.ev); free(e.storage); e.storage = nullptr; e.ev = nullptr; }
    else { TR("event_free(ev%d)", i); event_free(e.ev); e.ev = nullptr; }
  }
  return true;
}

// ------------------------------------------------------------------ once events
void once_cb(evutil_socket_t fd, short what, void *arg) {
  int i = (int)(intptr_t)arg; OnceS &o = W->once[i];
  TR("  once%d cb what=0x%x", i, what);
  CHECK(o.runs == 0, "C10/once-ran-twice", "event_base_once callback %d ran %d times", i, o.runs + 1);
  CHECK(o.st == 1, "C10/once-unexpected", "event_base_once callback %d ran in state %d", i, o.st);
  CHECK(!W->base_freeing && !W->base_freed, "C10/once-ran-from-base-free", "event_base_once callback %d ran during/after event_base_free", i);
  o.runs++; o.st = 2; W->total_cbs++;
  if (what & EV_READ) { char c; (void)!read(fd, &c, 1); }
  cb_action(K_ONCE, i);
}
void do_once(int i, Src &s) {
  OnceS &o = W->once[i]; if (o.st != 0) return;
  int form = s.below(5); int k = s.below(2); struct timeval tv = {0, (long)(1 + s.below(3000))}; int r;
  switch (form) {
    case 0: r = event_base_once(W->base, -1, EV_TIMEOUT, once_cb, (void *)(intptr_t)i, nullptr); o.immediate = true; break;
    case 1: { struct timeval z = {0, 0}; r = event_base_once(W->base, -1, EV_TIMEOUT, once_cb, (void *)(intptr_t)i, &z); o.immediate = true; break; }
    case 2: r = event_base_once(W->base, -1, EV_TIMEOUT, once_cb, (void *)(intptr_t)i, &tv); break;
    case 3: ensure_pipe(k); r = event_base_once(W->base, W->pipes[k][0], EV_READ, once_cb, (void *)(intptr_t)i, s.flag() ? &tv : nullptr); break;
    default: ensure_pipe(k); r = event_base_once(W->base, W->pipes[k][1], EV_WRITE, once_cb, (void *)(intptr_t)i, nullptr); break;
  }
  TR("once%d form=%d -> %d", i, form, r);
  CHECK(r == 0, "C10/once-failed", "event_base_once form %d returned %d", form, r);
  o.st = 1;
}

// ------------------------------------------------------------------ bufferevents
void bev_common_cb(struct bufferevent *b, int i, const char *which) {
  BevS &v = W->bev[i];
  TR("  bev%d %s cb (released=%d)", i, which, v.released);
  CHECK(!v.released, "C10/bev-callback-after-free", "%s callback of bufferevent %d ran after bufferevent_free returned", which, i);
  CHECK(!W->base_freeing && !W->base_freed, "C10/callback-during-base-free", "%s callback of bufferevent %d ran from event_base_free", which, i);
  CHECK(b == v.bev, "C10/bev-callback-wrong-object", "callback of bufferevent %d got another pointer", i);
  v.cbs++; W->total_cbs++;
}
void bev_rcb(struct bufferevent *b, void *arg) { int i = (int)(intptr_t)arg; bev_common_cb(b, i, "read"); BevS &v = W->bev[i]; v.in_cb++;
  char tmp[256]; while (!v.released && bufferevent_read(b, tmp, sizeof tmp) > 0) {} /* (a nested buffer callback may have freed it) */ cb_action(K_BEV, i); v.in_cb--; }
void bev_wcb(struct bufferevent *b, void *arg) { int i = (int)(intptr_t)arg; bev_common_cb(b, i, "write"); BevS &v = W->bev[i]; v.in_cb++; cb_action(K_BEV, i); v.in_cb--; }
void bev_ecb(struct bufferevent *b, short what, void *arg) { int i = (int)(intptr_t)arg; bev_common_cb(b, i, "event"); BevS &v = W->bev[i]; v.in_cb++; cb_action(K_BEV, i); v.in_cb--; }
// user callback on a bufferevent's own input/output evbuffer
void bevbuf_cb(struct evbuffer *, const struct evbuffer_cb_info *, void *arg) {
  int i = (int)(intptr_t)arg >> 1; BevS &v = W->bev[i];
  TR("  bev%d %s-evbuffer cb (released=%d)", i, ((intptr_t)arg & 1) ? "output" : "input", v.released);
  // (a freed underlying that a live filter still drives is still in use on the caller's behalf: no claim)
  // and while a filter stack is being dismantled the library frees/unlinks the lower layers on its own schedule: no claim either)
  CHECK(!v.released || v.stacked, K_BEVBUF, "evbuffer callback on the %s buffer of bufferevent %d ran after bufferevent_free returned", ((intptr_t)arg & 1) ? "output" : "input", i);
  CHECK(!W->base_freeing && !W->base_freed, "C10/callback-during-base-free", "evbuffer callback of bufferevent %d ran from event_base_free", i);
  v.bufcbs++; W->total_cbs++; v.in_bufcb++; cb_action(K_BEV, i); v.in_bufcb--;
}
enum bufferevent_filter_result filt(struct evbuffer *src, struct evbuffer *dst, ev_ssize_t, enum bufferevent_flush_mode, void *p) {
  FCtx *c = (FCtx *)p;
  CHECK(c->freed == 0, "C10/filter-callback-after-free-context", "filter function of bufferevent %d ran after its free_context", c->slot);
  CHECK(!W->base_freed, "C10/callback-during-base-free", "filter function of bufferevent %d ran after event_base_free", c->slot);
  c->calls++; c->in++; evbuffer_add_buffer(dst, src); c->in--; return BEV_OK;
}
void filt_free(void *p) {
  FCtx *c = (FCtx *)p; BevS &v = W->bev[c->slot];
  TR("  free_context bev%d%s", c->slot, W->base_freeing ? " [in base free]" : "");
  CHECK(c->freed == 0, "C10/filter-context-freed-twice", "free_context of filter %d ran a second time", c->slot);
  CHECK(v.released, "C10/filter-context-freed-while-alive", "free_context of filter %d ran before the filter was freed", c->slot);
  CHECK(c->in == 0 && v.in_cb == 0 && v.in_bufcb == 0, "C10/finalizer-before-last-callback", "free_context of filter %d ran while one of its callbacks was running", c->slot);
  CHECK(!(W->base_freeing && W->nofin), "C10/nofinalize-ran-finalizer", "event_base_free_nofinalize finalized filter %d", c->slot);
  c->freed++;
  if (W->base_freeing) W->fin_by_base_free++; else W->fin_by_loop++;
}

int draw_opts(Src &s, bool allow_cof) {
  int o = 0; if (allow_cof && s.flag()) o |= BEV_OPT_CLOSE_ON_FREE; if (s.flag()) o |= BEV_OPT_DEFER_CALLBACKS; if (s.flag()) o |= BEV_OPT_THREADSAFE;
  if (s.chance(1, 4)) o |= BEV_OPT_THREADSAFE | BEV_OPT_DEFER_CALLBACKS | BEV_OPT_UNLOCK_CALLBACKS;
  return o;
}
void bev_setup(int i, Src &s) {
  BevS &v = W->bev[i]; v.st = ST_ALIVE; W->defer_risk = true;
  bufferevent_setcb(v.bev, bev_rcb, s.flag() ? bev_wcb : nullptr, bev_ecb, (void *)(intptr_t)i);
  if (s.chance(1, 3)) { bool out = s.flag(); v.has_bufcb = true; evbuffer_add_cb(out ? bufferevent_get_output(v.bev) : bufferevent_get_input(v.bev), bevbuf_cb, (void *)(intptr_t)(i * 2 + (out ? 1 : 0))); TR("  user cb on %s buffer of bev%d", out ? "output" : "input", i); }
  bufferevent_enable(v.bev, EV_READ | EV_WRITE);
}
void do_mk_pair(Src &s) {
  if (W->bev[0].st != ST_NONE) return;
  int o = draw_opts(s, false); struct bufferevent *pr[2];
  int r = bufferevent_pair_new(W->base, o, pr); TR("pair_new opts=0x%x -> %d", o, r); CHECK(r == 0, "C10/ctor-failed", "bufferevent_pair_new=%d", r);
  for (int k = 0; k < 2; k++) { W->bev[k].bev = pr[k]; W->bev[k].type = k; W->bev[k].opts = o; bev_setup(k, s); }
}
void do_mk_sock(Src &s) {
  BevS &v = W->bev[2]; if (v.st != ST_NONE) return;
  int sp[2]; if (socketpair(AF_UNIX, SOCK_STREAM | SOCK_NONBLOCK | SOCK_CLOEXEC, 0, sp)) abort();
  int o = draw_opts(s, true); v.fd = sp[0]; v.peer = sp[1]; v.ino = ino_of(sp[0]); v.cof = (o & BEV_OPT_CLOSE_ON_FREE) != 0; v.type = 2; v.opts = o;
  v.bev = bufferevent_socket_new(W->base, sp[0], o); TR("socket_new fd=%d opts=0x%x", sp[0], o); CHECK(v.bev != nullptr, "C10/ctor-failed", "bufferevent_socket_new NULL");
  if (s.flag()) bufferevent_priority_set(v.bev, s.below(W->npri));
  bev_setup(2, s);
}
void do_mk_filter(int f, Src &s) {
  BevS &v = W->bev[f]; if (v.st != ST_NONE) return;
  int u = s.below(f); BevS &un = W->bev[u];
  if (un.st != ST_ALIVE || un.released || un.over >= 0) return;
  int o = draw_opts(s, true); v.type = 3; v.opts = o; v.cof = (o & BEV_OPT_CLOSE_ON_FREE) != 0; v.ctx.slot = f; v.under = u;
  v.bev = bufferevent_filter_new(un.bev, filt, s.flag() ? filt : nullptr, o, filt_free, &v.ctx);
  TR("filter_new bev%d over bev%d opts=0x%x", f, u, o); CHECK(v.bev != nullptr, "C10/ctor-failed", "bufferevent_filter_new NULL");
  un.over = f; un.stacked = v.stacked = true; bev_setup(f, s);
}
void mark_owner_released(int u) {   // a CLOSE_ON_FREE filter frees its underlying on the caller's behalf
  while (u >= 0) { BevS &x = W->bev[u]; bool was = x.released; x.released = true; if (was || !(x.type == 3 && x.cof)) break; u = x.under; }
}
bool release_bev(int i) {
  BevS &v = W->bev[i]; if (v.st != ST_ALIVE || v.released) return false;
  if (v.over >= 0 && W->bev[v.over].cof) return false;   // owned by a CLOSE_ON_FREE filter: freeing it as well would be a double free by the caller
  // known finding: a freed bufferevent that a scheduled deferred callback keeps alive still receives data (and runs the user's buffer callbacks)
  if (!W->force && v.has_bufcb && !v.stacked && W->defer_risk && verif_known(K_BEVBUF)) { verif_known_skipped(K_BEVBUF); return false; }
  if (!W->force && v.in_bufcb && verif_known(K_REARM)) { verif_known_skipped(K_REARM); return false; }   // known finding: search on behind it
  TR("bufferevent_free(bev%d)", i);
  v.released = true;
  if (v.type == 3 && v.cof) mark_owner_released(v.under);
  bufferevent_free(v.bev);
  // freeing a filter re-enables reading on its underlying bufferevent, freeing a pair end talks to its partner: either may schedule a
  // deferred callback (which holds a reference) on a bufferevent that is still around
  // (only a bufferevent that defers its callbacks can have one scheduled by this: BEV_OPT_DEFER_CALLBACKS, and every pair end)
  for (auto &x : W->bev) if (&x != &v && x.st == ST_ALIVE && (x.type <= 1 || (x.opts & BEV_OPT_DEFER_CALLBACKS))) W->defer_risk = true;
  return true;
}
void activate_bev(int i, Src &s) {
  BevS &v = W->bev[i]; if (v.st != ST_ALIVE || v.released) return;
  int how = s.below(7); W->defer_risk = true;
  struct Post { BevS &v; int i; ~Post() {
    // the bufferevent was freed by a callback nested in this call and dropped its last reference: finalize_many cancelled
    // its events; nothing may put them back (the finalizer frees the memory they live in)
    if (v.released && !W->base_freed && (v.type != 3 || v.ctx.freed == 0) && v.in_cb == 0 && v.in_bufcb == 0 && v.type == 2 && !v.closed_seen && BEV_UPCAST(v.bev)->refcnt == 0)
      // (registration flags, not event_pending(): the event that carries the pending finalizer is "active" with a stale ev_res)
      CHECK(!(v.bev->ev_write.ev_flags & (EVLIST_INSERTED | EVLIST_TIMEOUT)) && !(v.bev->ev_read.ev_flags & (EVLIST_INSERTED | EVLIST_TIMEOUT)), K_REARM,
            "bufferevent %d was freed from its own evbuffer callback during a bufferevent call; after the call returned its read/write event is pending again", i); } } post{v, i};
  if (v.over >= 0 && how != 2 && how != 3) return;    // the caller drives a filtered bufferevent through the filter, not directly
  if (v.in_bufcb && how != 2 && how != 3) return;      // no re-entrant buffer modification from the buffer's own callback
  switch (how) {
    case 0: case 1: { static const char D[600] = {'x'}; size_t n = how ? 600 : 5; TR("bufferevent_write(bev%d, %zu)", i, n); bufferevent_write(v.bev, D, n); break; }
    case 2: if (v.type == 2 && !v.peer_closed) { TR("peer write bev%d", i); (void)!write(v.peer, "hello", 5); } break;
    case 3: if (v.type == 2 && !v.peer_closed) { TR("peer shutdown bev%d", i); shutdown(v.peer, SHUT_WR); v.peer_closed = true; } break;
    case 4: { int io = s.flag() ? EV_READ : EV_WRITE; int o = s.flag() ? BEV_TRIG_DEFER_CALLBACKS : 0; TR("bufferevent_trigger(bev%d,%d,%d)", i, io, o); bufferevent_trigger(v.bev, io, o | BEV_TRIG_IGNORE_WATERMARKS); break; }
    case 5: { struct timeval tv = {0, (long)(500 + s.below(2000))}; TR("set_timeouts(bev%d)", i); bufferevent_set_timeouts(v.bev, s.flag() ? &tv : nullptr, &tv); break; }
    default: { TR("bufferevent_flush(bev%d)", i); bufferevent_flush(v.bev, s.flag() ? EV_READ : EV_WRITE, s.flag() ? BEV_FLUSH : BEV_FINISHED); break; }
  }
}

// ------------------------------------------------------------------ standalone evbuffers
void buf_cb(struct evbuffer *b, const struct evbuffer_cb_info *info, void *arg) {
  int i = (int)(intptr_t)arg; BufS &u = W->buf[i];
  TR("  buf%d cb +%zu -%zu st=%d", i, info->n_added, info->n_deleted, u.st);
  if (u.deferred) u.sched = false;
  if (u.tolerate) return;
  CHECK(u.st == ST_ALIVE, K_BUF_AFTER_FREE, "callback of evbuffer %d (deferred=%d) ran after evbuffer_free returned", i, u.deferred);
  CHECK(!W->base_freeing && !W->base_freed, "C10/callback-during-base-free", "callback of evbuffer %d ran from event_base_free", i);
  u.cbs++; W->total_cbs++; u.in_cb++; cb_action(K_BUF, i); u.in_cb--;
}
void do_mk_buf(int i, Src &s) {
  BufS &u = W->buf[i]; if (u.st != ST_NONE) return;
  u.b = evbuffer_new(); if (!u.b) abort(); u.st = ST_ALIVE;
  if (s.flag()) evbuffer_enable_locking(u.b, nullptr);
  u.deferred = s.flag(); if (u.deferred) evbuffer_defer_callbacks(u.b, W->base);
  evbuffer_add_cb(u.b, buf_cb, (void *)(intptr_t)i); if (s.flag()) evbuffer_add_cb(u.b, buf_cb, (void *)(intptr_t)i);
  TR("new buf%d deferred=%d", i, u.deferred);
}
void activate_buf(int i, Src &s) {
  BufS &u = W->buf[i]; if (u.st != ST_ALIVE || u.in_cb) return;
  if (u.deferred) u.sched = true;
  if (s.flag()) { TR("evbuffer_add(buf%d)", i); evbuffer_add(u.b, "abcdef", 6); } else { TR("evbuffer_drain(buf%d)", i); evbuffer_drain(u.b, 3); }
}
bool release_buf(int i) {
  BufS &u = W->buf[i]; if (u.st != ST_ALIVE) return false;
  if (u.in_cb && !u.deferred) return false;      // see preconditions
  if (u.deferred && W->base_freed) return false;  // bound to the base
  if (u.deferred && (u.sched || u.in_cb) && verif_known(K_BUF_AFTER_FREE)) {
    // known finding: deferred callbacks that are scheduled (or the rest of a running round) still run after evbuffer_free():
    // only free a deferred buffer when no run is scheduled or in progress
    verif_known_skipped(K_BUF_AFTER_FREE); return false; }
  TR("evbuffer_free(buf%d)", i); u.st = ST_DEAD; evbuffer_free(u.b); u.b = nullptr; return true;
}

// ------------------------------------------------------------------ herd of deferred evbuffers + loop control (widened domain)
// choices of the widened domain are a function of the choices decoded so far: no draw is added, saved inputs keep their decoding
uint32_t derived(uint32_t salt, uint32_t k) {
  uint64_t x = W->s->h ^ (0x9e3779b97f4a7c15ull * (salt + 1)); x ^= x >> 29; x *= 0xbf58476d1ce4e5b9ull; x ^= x >> 32; x *= 0x94d049bb133111ebull; x ^= x >> 31;
  return (uint32_t)(x % k);
}
void herd_cb(struct evbuffer *b, const struct evbuffer_cb_info *info, void *arg) {
  int i = (int)(intptr_t)arg; HerdS &h = W->herd;
  TR("  herd%d cb +%zu", i, info->n_added);
  if (h.unclean) return;
  CHECK(h.st == ST_ALIVE, "C10/evbuffer-callback-after-free-unscheduled", "callback of herd evbuffer %d ran after evbuffer_free returned although every scheduled run had completed before the free", i);
  CHECK(!W->base_freeing && !W->base_freed, "C10/callback-during-base-free", "callback of herd evbuffer %d ran from event_base_free", i);
  CHECK(b == h.b[i], "C10/evbuffer-callback-wrong-object", "callback of herd evbuffer %d got another pointer", i);
  h.seen[i] += (int)info->n_added; h.runs[i]++; W->total_cbs++;
  CHECK(h.seen[i] <= h.added[i] && h.runs[i] <= h.kicks && info->n_added > 0, "C10/deferred-callback-invented", "herd evbuffer %d: %d deferred runs reporting %d bytes added for %d writes of 1 byte", i, h.runs[i], h.seen[i], h.added[i]);
}
void herd_kick(const char *where) {
  HerdS &h = W->herd;
  if (!W->wide || W->closing || W->base_freeing || W->base_freed || h.st == ST_DEAD) return;
  if (h.st == ST_NONE) {
    for (int i = 0; i < NHERD; i++) { h.b[i] = evbuffer_new(); if (!h.b[i]) abort(); h.added[i] = h.seen[i] = h.runs[i] = 0;
      evbuffer_defer_callbacks(h.b[i], W->base); evbuffer_add_cb(h.b[i], herd_cb, (void *)(intptr_t)i); }
    h.st = ST_ALIVE; TR("new herd of %d deferred evbuffers", NHERD);
  }
  int rounds = 1 + (int)derived(5, 2);   // a second round re-schedules, within the same loop iteration, callbacks that the first round parked
  TR("herd write x%d, %d round(s) (%s)", NHERD, rounds, where);
  h.kicks += rounds;
  for (int r = 0; r < rounds; r++) for (int i = 0; i < NHERD; i++) { h.added[i]++; evbuffer_add(h.b[i], "h", 1); }
  verif_class(W->in_loop ? "herd_written_in_loop" : "herd_written_outside_loop");
}
bool herd_pending() { HerdS &h = W->herd; if (h.st != ST_ALIVE) return false; for (int i = 0; i < NHERD; i++) if (h.seen[i] != h.added[i]) return true; return false; }
// a callback leaves the running loop (what was parked for a later iteration stays parked until the loop is resumed) or restarts its scan
void loop_control(bool kicked) {
  if (!W->wide || W->closing || !W->in_loop) return;
  uint32_t d = derived(2, kicked ? 2 : 12);
  if (d == 0) { TR("event_base_loopbreak"); event_base_loopbreak(W->base); W->turn_broken = true; W->broke = true; verif_class(herd_pending() ? "loopbreak_with_herd_scheduled" : "loopbreak_in_cb"); }
  else if (d == 1 && !kicked) { TR("event_base_loopcontinue"); event_base_loopcontinue(W->base); verif_class("loopcontinue_in_cb"); }
}

// ------------------------------------------------------------------ listener
void lev_cb(struct evconnlistener *l, evutil_socket_t fd, struct sockaddr *, int, void *) {
  LevS &L = W->lev;
  TR("  listener cb fd=%d st=%d", fd, L.st);
  close(fd);
  CHECK(L.st == ST_ALIVE, "C10/listener-callback-after-free", "listener callback ran after evconnlistener_free returned");
  CHECK(!W->base_freeing && !W->base_freed, "C10/callback-during-base-free", "listener callback ran from event_base_free");
  L.cbs++; W->total_cbs++; L.in_cb++; cb_action(K_LEV, 0); L.in_cb--;
}
void lev_errcb(struct evconnlistener *l, void *) {
  LevS &L = W->lev;
  TR("  listener error cb st=%d", L.st);
  CHECK(L.st == ST_ALIVE, "C10/listener-callback-after-free", "listener error callback ran after evconnlistener_free returned");
  CHECK(!W->base_freeing && !W->base_freed, "C10/callback-during-base-free", "listener error callback ran from event_base_free");
  CHECK(l == L.l, "C10/listener-callback-wrong-object", "listener error callback got another pointer");
  L.errcbs++; W->total_cbs++; L.in_cb++; verif_class("listener_error_cb"); cb_action(K_LEV, 0); L.in_cb--;
}
// evconnlistener_free "deallocates" the listener: once the call has returned and no callback of the listener is on the stack any more
// (single thread: nobody else holds a reference) the listener is finalized, i.e. its socket is closed iff LEV_OPT_CLOSE_ON_FREE
void lev_check_finalized(const char *where) {
  LevS &L = W->lev; if (L.st != ST_DEAD || L.in_cb || L.closed_seen) return;
  bool open = same_open(L.fd, L.ino);
  if (L.cof) { CHECK(!open, "C10/listener-not-finalized-after-free", "LEV_OPT_CLOSE_ON_FREE listener freed (and its callbacks unwound), but its socket fd %d is still open %s", L.fd, where); L.closed_seen = true; }
  else CHECK(open, "C10/fd-closed-without-close-on-free", "listener socket fd %d closed %s although LEV_OPT_CLOSE_ON_FREE was not set", L.fd, where);
}
void do_mk_lev(Src &s) {
  LevS &L = W->lev; if (L.st != ST_NONE) return;
  struct sockaddr_un sun; memset(&sun, 0, sizeof sun); sun.sun_family = AF_UNIX; memcpy(sun.sun_path + 1, g_sockname, g_socknamelen);
  L.cof = s.flag(); unsigned fl = (L.cof ? LEV_OPT_CLOSE_ON_FREE : 0) | (s.flag() ? LEV_OPT_THREADSAFE : 0) | (s.chance(1, 4) ? LEV_OPT_DISABLED : 0);
  L.l = evconnlistener_new_bind(W->base, lev_cb, nullptr, fl, 4, (struct sockaddr *)&sun, (int)(offsetof(struct sockaddr_un, sun_path) + 1 + g_socknamelen));
  TR("listener_new_bind flags=0x%x -> %p", fl, (void *)(L.l ? (void *)1 : nullptr)); CHECK(L.l != nullptr, "C10/ctor-failed", "evconnlistener_new_bind NULL errno=%d", errno);
  L.fd = evconnlistener_get_fd(L.l); L.ino = ino_of(L.fd); L.st = ST_ALIVE;
  evconnlistener_set_error_cb(L.l, lev_errcb);
}
void activate_lev(Src &s) {
  LevS &L = W->lev; if (L.st != ST_ALIVE) return;
  int h = s.below(4);
  if (h == 0) { TR("listener enable"); evconnlistener_enable(L.l); return; }
  if (h == 1) {   // fault point: the next accept() on the listening socket fails (fd / memory exhaustion -> error callback; ECONNABORTED -> retried silently)
    static const int E[3] = {EMFILE, ENOMEM, ECONNABORTED}; int e = E[s.below(3)];
    TR("next accept fails errno=%d", e); sim_script(SYS_ACCEPT, L.fd, ACT_FAIL, e); verif_class("accept_fault_scripted"); }
  if (L.nclients >= 4) return;
  int c = socket(AF_UNIX, SOCK_STREAM | SOCK_NONBLOCK | SOCK_CLOEXEC, 0); if (c < 0) abort();
  struct sockaddr_un sun; memset(&sun, 0, sizeof sun); sun.sun_family = AF_UNIX; memcpy(sun.sun_path + 1, g_sockname, g_socknamelen);
  int r = connect(c, (struct sockaddr *)&sun, (socklen_t)(offsetof(struct sockaddr_un, sun_path) + 1 + g_socknamelen));
  TR("connect client fd=%d -> %d", c, r); L.clients[L.nclients++] = c;
}
bool release_lev() {
  LevS &L = W->lev; if (L.st != ST_ALIVE) return false;
  TR("evconnlistener_free%s", L.in_cb ? " (inside its own callback)" : ""); L.st = ST_DEAD; evconnlistener_free(L.l); L.l = nullptr;
  lev_check_finalized("after evconnlistener_free returned"); return true;
}
// ------------------------------------------------------------------ reconfiguration (stop / restart / re-point a live object without releasing it)
void reconf_lev(Src &s) {
  LevS &L = W->lev; if (L.st != ST_ALIVE) return;
  int h = s.below(8);
  switch (h) {
    case 0: case 1: case 2: { int r = evconnlistener_disable(L.l); TR("evconnlistener_disable -> %d", r); CHECK(r == 0, "C10/reconf-failed", "evconnlistener_disable=%d", r); break; }
    case 3: case 4: { int r = evconnlistener_enable(L.l); TR("evconnlistener_enable -> %d", r); CHECK(r == 0, "C10/reconf-failed", "evconnlistener_enable=%d", r); break; }
    case 5: TR("evconnlistener_set_cb(cb)"); evconnlistener_set_cb(L.l, lev_cb, nullptr); break;
    case 6: TR("evconnlistener_set_cb(NULL)"); evconnlistener_set_cb(L.l, nullptr, nullptr); break;
    default: { bool on = s.flag(); TR("evconnlistener_set_error_cb(%s)", on ? "cb" : "NULL"); evconnlistener_set_error_cb(L.l, on ? lev_errcb : nullptr); break; }
  }
}
void reconf_ev(int i, Src &s) {
  EvS &e = W->ev[i]; if (e.st != ST_ALIVE) return;
  if (s.below(3)) { TR("event_del(ev%d)", i); int r = event_del(e.ev); CHECK(r == 0, "C10/reconf-failed", "event_del(ev%d)=%d", i, r); }
  else do_ev_add(i, s);
}
void reconf_bev(int i, Src &s) {
  BevS &v = W->bev[i]; if (v.st != ST_ALIVE || v.released) return;
  if (v.over >= 0 || v.in_bufcb) return;   // driven through its filter only; no re-entrant buffer traffic from the buffer's own callback
  short what = (short)(1 + s.below(3)) * EV_READ;   // EV_READ=2, EV_WRITE=4, both=6
  W->defer_risk = true;
  if (s.below(3)) { TR("bufferevent_disable(bev%d, 0x%x)", i, what); bufferevent_disable(v.bev, what); }
  else { TR("bufferevent_enable(bev%d, 0x%x)", i, what); bufferevent_enable(v.bev, what); }
}

// ------------------------------------------------------------------ generic
bool release(int kind, int idx, int mode, int ctx_kind, int ctx_idx) {
  bool done = false;
  switch (kind) {
    case K_EV: done = release_ev(idx, mode); break;
    case K_BEV: done = release_bev(idx); break;
    case K_BUF: done = release_buf(idx); break;
    case K_LEV: done = release_lev(); break;
    default: break;
  }
  if (done) {
    if (ctx_kind == K_NONE) W->rel_outside++;
    else if (ctx_kind == kind && (ctx_idx == idx || kind == K_LEV)) { W->rel_in_own_cb++; verif_class("release_in_own_cb"); }
    else { W->rel_in_other_cb++; verif_class("release_in_other_cb"); }
  }
  return done;
}
void activate(int kind, int idx) {
  Src &s = *W->s;
  switch (kind) {
    case K_EV: activate_ev(idx, s); break;
    case K_BEV: activate_bev(idx, s); break;
    case K_BUF: activate_buf(idx, s); break;
    case K_LEV: activate_lev(s); break;
    default: break;
  }
}
void reconfigure(int kind, int idx) {
  Src &s = *W->s;
  switch (kind) {
    case K_EV: reconf_ev(idx, s); break;
    case K_BEV: reconf_bev(idx, s); break;
    case K_LEV: reconf_lev(s); break;
    default: break;
  }
}
int draw_reconf_obj(Src &s, int *idx) {
  int k = s.below(3); *idx = 0;
  if (k == 0) { *idx = s.below(NEV); return K_EV; }
  if (k == 1) { *idx = s.below(NBEV); return K_BEV; }
  return K_LEV;
}
int draw_obj(Src &s, int *idx) {
  int k = s.below(4);
  *idx = k == K_EV ? s.below(NEV) : k == K_BEV ? s.below(NBEV) : k == K_BUF ? s.below(NBUF) : 0;
  return k;
}
// what a user callback may do: nothing (half of the time), or a sequence of up to 3 steps, each one of: reconfigure (stop / restart) itself or
// another object, release itself, release another object, activate something.  "disable, then free" in one callback is the usual shutdown idiom.
void cb_action(int kind, int idx) {
  if (W->in_fin || W->acts_left <= 0 || W->base_freeing) return;
  Src &s = *W->s;
  int rk = K_NONE, rj = -1, steps = 0;   // the object reconfigured earlier in this callback
  bool kicked = false;
  if (W->wide && !W->closing && derived(1, 5) == 0) { W->acts_left--; herd_kick("in a callback"); kicked = true; }
  for (int n = 0; n < 3 && W->acts_left > 0; n++) {
    int a = s.below(8); if (a < 4) break;
    W->acts_left--; W->depth++; steps++;
    if (a == 4) { int j = idx, k = kind; if (kind == K_ONCE || kind == K_BUF || !s.flag()) k = draw_reconf_obj(s, &j); reconfigure(k, j); rk = k; rj = j; }
    else if (a == 5) { if (kind != K_ONCE && release(kind, idx, s.below(2), kind, idx) && rk == kind && (rj == idx || kind == K_LEV)) verif_class("reconfigure_then_release_in_same_cb"); }
    else if (a == 6) { int j, k = draw_obj(s, &j); if (release(k, j, s.below(2), kind, idx) && rk == k && (rj == j || k == K_LEV)) verif_class("reconfigure_then_release_in_same_cb"); }
    else if (W->depth <= 2) { int j, k = draw_obj(s, &j); activate(k, j); }
    W->depth--;
  }
  if (steps > 1) verif_class("multi_step_cb");
  loop_control(kicked);
}

int64_t wait_hook(const struct sim_wait_info *wi, void *) {
  if (++W->turn_waits > 48) { W->turn_capped = true; event_base_loopbreak(W->base); }
  if (wi->nready > 0) return 20;
  if (wi->timeout_us < 0) { event_base_loopbreak(W->base); return 0; }
  return wi->timeout_us < 2000000 ? wi->timeout_us : 2000000;
}

bool fully_released(int i) { BevS &v = W->bev[i]; if (!v.released) return false; return v.over < 0 || fully_released(v.over); }

void turn(int flags) {
  W->turn_waits = 0; W->turn_capped = false; W->turn_broken = false; W->broke = false;
  bool immediate_pending[NONCE]; for (int k = 0; k < NONCE; k++) immediate_pending[k] = W->once[k].st == 1 && W->once[k].immediate;
  TR("turn flags=%d", flags);
  W->in_loop++; int r = event_base_loop(W->base, flags); W->in_loop--;
  TR("turn -> %d capped=%d left-by-loopbreak=%d", r, W->turn_capped, W->turn_broken);
  CHECK(r >= 0, "C10/loop-error", "event_base_loop=%d", r);
  lev_check_finalized("after the loop turn in which it was freed");
  if (W->turn_capped || W->turn_broken || flags != EVLOOP_NONBLOCK) { W->defer_risk = true; return; }
  W->defer_risk = false;
  // ... and every deferred evbuffer callback that was scheduled, however many there were (nothing stays parked)
  if (W->herd.st == ST_ALIVE) for (int k = 0; k < NHERD; k++) CHECK(W->herd.seen[k] == W->herd.added[k], "C10/deferred-callback-not-run-by-loop",
    "herd evbuffer %d: %d bytes added, its deferred callback reported %d by the end of a complete loop turn", k, W->herd.added[k], W->herd.seen[k]);
  // a complete non-blocking turn runs every callback that was active, finalizers included
  for (int k = 0; k < NEV; k++) CHECK(W->ev[k].st != ST_FINALIZING, "C10/finalizer-not-run-by-loop", "finalizer of event %d still pending after a complete loop turn", k);
  for (int k = 0; k < NONCE; k++) if (immediate_pending[k]) CHECK(W->once[k].runs == 1, "C10/once-not-run", "immediate event_base_once callback %d did not run in a complete loop turn", k);
  for (int k = 0; k < NBEV; k++) { BevS &v = W->bev[k]; if (v.st != ST_ALIVE || !fully_released(k)) continue;
    if (v.type == 3) CHECK(v.ctx.freed == 1, "C10/bev-finalizer-not-run-by-loop", "filter %d freed, but free_context did not run in a complete loop turn", k);
    if (v.type == 2 && v.cof && !v.closed_seen) { CHECK(!same_open(v.fd, v.ino), "C10/bev-finalizer-not-run-by-loop", "CLOSE_ON_FREE socket of bufferevent %d still open after a complete loop turn", k); v.closed_seen = true; }
  }
}

void at_exit_check() {
  if (g_in_case) return;
  libevent_global_shutdown();
  if (sim_mem_live_blocks != g_expected_leak) {
    fprintf(stderr, "\nVERIF-FAIL property=C10 key=C10/global-shutdown-leak msg=%lld library blocks outstanding after libevent_global_shutdown (expected %lld)\n",
            (long long)sim_mem_live_blocks, (long long)g_expected_leak);
    fflush(stderr); abort();
  }
}
}  // namespace

extern "C" int LLVMFuzzerInitialize(int *, char ***) {
  sim_mem_install(); sim_lockmon_install(); signal(SIGPIPE, SIG_IGN);
  event_set_log_callback([](int, const char *) {});
  g_socknamelen = snprintf(g_sockname, sizeof g_sockname, "verif-c10-%d", (int)getpid());
  // warm up one-time global allocations
  struct event_base *b = event_base_new(); char x[8]; evutil_secure_rng_get_bytes(x, sizeof x);
  struct event *e = event_new(b, SIGUSR1, EV_SIGNAL, [](evutil_socket_t, short, void *) {}, nullptr); event_add(e, nullptr); event_free(e);
  event_base_free(b);
  atexit(at_exit_check);
  return 0;
}

extern "C" int LLVMFuzzerTestOneInput(const uint8_t *data, size_t size) {
  sim_reset();
  verif_case_begin("C10");
  Src s(data, size);
  World w; W = &w; w.s = &s; g_in_case = true;
  int64_t live0 = sim_mem_live_blocks;
  FdTab fd0; fd_table(&fd0);
  sim_clock_enable(SIM_START_US); sim_set_wait_hook(wait_hook, nullptr);
  // teardown mode first: 0 = event_base_free; 1 = event_base_free_nofinalize with only event finalizers pending;
  // 2 = event_base_free_nofinalize with anything pending (leaks library memory by design: LeakSanitizer is told so)
  int tmode = s.below(192); tmode = tmode < 128 ? 0 : tmode < 191 ? 1 : 2;
  w.nofin = tmode != 0; w.dirty = tmode == 2;
  if (w.dirty) __lsan_disable();
  struct event_config *cfg = event_config_new();
  int backend = s.below(4);
  if (backend >= 2) event_config_avoid_method(cfg, "epoll");
  if (backend == 3) event_config_avoid_method(cfg, "poll");
  if (backend == 1) event_config_set_flag(cfg, EVENT_BASE_FLAG_EPOLL_USE_CHANGELIST);
  w.base = event_base_new_with_config(cfg); event_config_free(cfg);
  if (!w.base) abort();
  evutil_weakrand_seed_(&w.base->weakrand_seed, 1);   // poll/select start index: not a function of the pid
  w.npri = 1 + s.below(3); event_base_priority_init(w.base, w.npri);
  w.wide = derived(3, 2) == 0;   // (salt chosen so that the saved known-*/regress-* replays fall into the other half and keep their exact meaning)
  TR("base %s npri=%d teardown-mode=%d widened=%d", event_base_get_method(w.base), w.npri, tmode, w.wide);

  for (int step = 0; step < 40; step++) {
    int op = s.below(20);
    if (op == 0) break;
    if (w.wide && derived(4, w.broke ? 3 : 20) == 0) herd_kick("outside the loop");
    switch (op) {
      case 1: case 2: { int i = s.below(NEV); do_ev_new(i, s); do_ev_add(i, s); break; }
      case 3: activate_ev(s.below(NEV), s); break;
      case 4: do_once(s.below(NONCE), s); break;
      case 5: do_mk_pair(s); break;
      case 6: do_mk_sock(s); break;
      case 7: do_mk_filter(3 + s.below(2), s); break;
      case 8: case 9: activate_bev(s.below(NBEV), s); break;
      case 10: do_mk_buf(s.below(NBUF), s); break;
      case 11: activate_buf(s.below(NBUF), s); break;
      case 12: do_mk_lev(s); break;
      case 13: activate_lev(s); break;
      case 14: { int k = s.below(2); ensure_pipe(k); char c = 'q'; TR("pipe%d write", k); (void)!write(w.pipes[k][1], &c, 1); break; }
      case 15: { int j, k = draw_obj(s, &j); release(k, j, s.below(2), K_NONE, -1); break; }
      case 16: { int i = s.below(NEV); if (w.ev[i].st == ST_ALIVE) { TR("event_del(ev%d)", i); event_del(w.ev[i].ev); } break; }
      case 17: turn(EVLOOP_ONCE); break;
      case 19: { int j, k = draw_reconf_obj(s, &j); reconfigure(k, j); break; }
      default: turn(EVLOOP_NONBLOCK); break;
    }
  }

  // ---- teardown: release what is still alive, in an order drawn from the input, optionally with turns in between
  TR("teardown");
  for (int k = 0; k < 12; k++) { int j, kind = draw_obj(s, &j);
    if (kind == K_EV && w.ev[j].st == ST_ALIVE && w.ev[j].own && s.flag()) { w.ev[j].left_pending = true; continue; }   // stays registered across event_base_free
    release(kind, j, s.below(2), K_NONE, -1); if (s.chance(1, 6)) turn(EVLOOP_NONBLOCK); }
  for (int j = NBEV - 1; j >= 0; j--) { BevS &v = w.bev[j]; if (v.st != ST_ALIVE || v.released) continue;
    for (int t = 0; t < 4 && !release(K_BEV, j, 0, K_NONE, -1) && !v.released; t++) turn(EVLOOP_NONBLOCK);   // (a known-finding exclusion may ask for a quiet moment)
    if (!v.released) { W->force = true; release(K_BEV, j, 0, K_NONE, -1); W->force = false; } }
  for (int j = 0; j < NEV; j++) if (!w.ev[j].left_pending) release(K_EV, j, s.below(2), K_NONE, -1);
  release(K_LEV, 0, 0, K_NONE, -1);
  for (int j = 0; j < NBUF; j++) if (w.buf[j].st == ST_ALIVE && w.buf[j].deferred) {
    for (int t = 0; t < 3 && !release(K_BUF, j, 0, K_NONE, -1); t++) turn(EVLOOP_NONBLOCK);
    if (w.buf[j].st == ST_ALIVE) { TR("evbuffer_free(buf%d) (known finding tolerated)", j); w.buf[j].tolerate = true; w.buf[j].st = ST_DEAD; evbuffer_free(w.buf[j].b); w.buf[j].b = nullptr; } }
  // the herd: drained by complete turns (no callback writes it or leaves the loop any more), then freed with no run scheduled
  w.closing = true;
  if (w.herd.st == ST_ALIVE) {
    for (int t = 0; t < 4 && herd_pending(); t++) turn(EVLOOP_NONBLOCK);
    if (herd_pending()) { w.herd.unclean = true; verif_class("herd_freed_with_runs_scheduled"); }   // (every turn hit the harness's wait cap: no claim)
    TR("evbuffer_free x%d (herd)%s", NHERD, w.herd.unclean ? " (runs still scheduled: tolerated)" : "");
    w.herd.st = ST_DEAD; for (int i = 0; i < NHERD; i++) { evbuffer_free(w.herd.b[i]); w.herd.b[i] = nullptr; }
    verif_class("herd_released");
  }
  bool bev_pending = false; for (auto &v : w.bev) if (v.st == ST_ALIVE) bev_pending = true;
  if ((tmode == 1 && bev_pending) || s.flag()) { turn(EVLOOP_NONBLOCK); if (w.turn_capped && tmode == 1) { tmode = 0; w.nofin = false; } }
  bool tolerate_leak = false;
  if (w.defer_risk && bev_pending && verif_known(K_DEFER_LEAK)) {   // known finding: search on behind it
    verif_known_skipped(K_DEFER_LEAK); for (int t = 0; t < 3 && w.defer_risk; t++) turn(EVLOOP_NONBLOCK); tolerate_leak = w.defer_risk; }
  int pend_fin = 0, pend_ev = 0, pend_once = 0;
  for (auto &e : w.ev) { if (e.st == ST_FINALIZING) pend_fin++; if (e.st == ST_ALIVE) pend_ev++; }
  for (auto &o : w.once) if (o.st == 1) pend_once++;
  int pend_filter = 0; for (auto &v : w.bev) if (v.st == ST_ALIVE && v.type == 3 && v.ctx.freed == 0) pend_filter++;
  lev_check_finalized("before event_base_free");
  int64_t live_before_free = sim_mem_live_blocks;
  TR("%s (pending: %d event finalizers, %d events, %d once, %d unfinalized filters; live blocks %lld)", w.nofin ? "event_base_free_nofinalize" : "event_base_free", pend_fin, pend_ev, pend_once, pend_filter, (long long)(live_before_free - live0));
  w.base_freeing = true;
  if (w.nofin) event_base_free_nofinalize(w.base); else event_base_free(w.base);
  w.base_freeing = false; w.base_freed = true; w.base = nullptr;

  // ---- oracle after the base is gone
  for (int k = 0; k < NEV; k++) { EvS &e = w.ev[k];
    if (e.st == ST_FINALIZING) {
      CHECK(w.nofin, "C10/finalizer-lost", "event_base_free did not run the pending finalizer of event %d", k);
      CHECK(e.fins == 0, "C10/nofinalize-ran-finalizer", "event %d", k);
      // documented: the finalizer is skipped; what it would have released is the caller's business
      if (e.own) { free(e.storage); e.storage = nullptr; } else { sim_mem_free(e.ev); }
      e.ev = nullptr; e.st = ST_DEAD;
    } else if (e.st == ST_DEAD && (e.fins || e.own == false)) { /* freed or finalized */ }
    if (e.st == ST_ALIVE) { CHECK(e.own, "harness/event-left", "event %d", k); free(e.storage); e.storage = nullptr; e.ev = nullptr; e.st = ST_DEAD; }
    if (e.storage) { free(e.storage); e.storage = nullptr; }   // own storage whose finalizer did not free it
    CHECK(e.fins <= 1, "C10/finalizer-twice", "event %d finalized %d times", k, e.fins);
  }
  for (int k = 0; k < NONCE; k++) { OnceS &o = w.once[k]; CHECK(o.runs <= 1, "C10/once-ran-twice", "once %d ran %d times", k, o.runs); if (o.st == 1) w.once_never++; }
  for (int k = 0; k < NBEV; k++) { BevS &v = w.bev[k]; if (v.st != ST_ALIVE) continue;
    if (v.type == 3) { if (!w.dirty) CHECK(v.ctx.freed == 1, "C10/filter-context-not-freed", "filter %d: free_context ran %d times by the end of event_base_free%s", k, v.ctx.freed, w.nofin ? "_nofinalize (nothing was pending)" : ""); }
    if (v.type == 2) {
      bool open = same_open(v.fd, v.ino);
      if (v.cof && !w.dirty) CHECK(!open || v.closed_seen, "C10/close-on-free-fd-left-open", "bufferevent %d: CLOSE_ON_FREE socket still open after event_base_free", k);
      if (!v.cof) CHECK(open, "C10/fd-closed-without-close-on-free", "bufferevent %d: socket closed although BEV_OPT_CLOSE_ON_FREE was not set", k);
      if (open && !v.closed_seen) close(v.fd);
      close(v.peer);
    }
  }
  // released after the base: non-deferred evbuffers
  for (int j = 0; j < NBUF; j++) if (w.buf[j].st == ST_ALIVE) { TR("evbuffer_free(buf%d) after base free", j); w.buf[j].st = ST_DEAD; evbuffer_free(w.buf[j].b); }
  if (w.lev.fd >= 0 && !w.lev.cof) close(w.lev.fd);
  else if (w.lev.fd >= 0 && !w.dirty) CHECK(w.lev.closed_seen || !same_open(w.lev.fd, w.lev.ino), "C10/listener-not-finalized-after-free", "LEV_OPT_CLOSE_ON_FREE listener: socket fd %d still open after event_base_free", w.lev.fd);
  for (int k = 0; k < w.lev.nclients; k++) close(w.lev.clients[k]);
  for (auto &p : w.pipes) if (p[0] >= 0) { close(p[0]); close(p[1]); }

  int64_t leaked = sim_mem_live_blocks - live0;
  if (w.dirty || w.herd.unclean) { if (leaked > 0) { g_expected_leak += leaked; verif_class("nofinalize_left_memory"); } CHECK(leaked >= 0, "C10/ledger-negative", "%lld", (long long)leaked); }
  else if (leaked > 0 && w.defer_risk && bev_pending) { g_expected_leak += leaked; if (!tolerate_leak) VERIF_FAIL(K_DEFER_LEAK, "%lld library allocation(s) outstanding after %s: a bufferevent was freed while its deferred callback was scheduled; the base cancelled that callback and with it the last reference", (long long)leaked, w.nofin ? "event_base_free_nofinalize" : "event_base_free"); }
  else CHECK(leaked == 0, "C10/library-memory-outstanding", "%lld library allocation(s) outstanding after %s (with %d event finalizers pending at that point)", (long long)leaked, w.nofin ? "event_base_free_nofinalize" : "event_base_free", pend_fin);
  FdTab fd1; fd_table(&fd1); int d = fd_table_diff(&fd0, &fd1);
  CHECK(d < 0, "C10/fd-table-differs", "fd %d differs from the pre-case snapshot", d);
  if (w.dirty) __lsan_enable();

  bool pending_at_free = pend_fin || pend_ev || pend_once || pend_filter;
  if (pending_at_free) verif_class(w.nofin ? "nofinalize_with_pending" : "base_free_with_pending");
  if (w.fin_by_loop) verif_class("finalized_by_loop"); if (w.fin_by_base_free) verif_class("finalized_by_base_free");
  if (w.once_never) verif_class("once_never_ran"); if (w.total_cbs) verif_class("callbacks_ran");
  int nontrivial = (w.rel_in_own_cb + w.rel_in_other_cb > 0) || pending_at_free;
  verif_case_end(nontrivial, s.h);
  W = nullptr; g_in_case = false;
  return 0;
}
