// Shared world for the EVBUF family (C12 C13 C14 C16): real evbuffers + byte-string models in lock-step,
// internal chain-bookkeeping validator, change-callback accounting.
#pragma once
#include "verif.h"
#include "sim.h"
#include "bytebuf_model.hh"
#include <event2/event.h>
#include <event2/buffer.h>
#include <event2/buffer_compat.h>
#include <sys/mman.h>
#include <sys/uio.h>
extern "C" {
#include "evbuffer-internal.h"
#include "mm-internal.h"
}
#include <vector>
#include <string>

// Large payloads churn ASan's default 256 MB quarantine (page faults dominate); a smaller one keeps use-after-free
// detection for the chain sizes used here while running ~10x faster.
extern "C" const char *__asan_default_options() { return "quarantine_size_mb=16"; }

namespace evb {
using bytebuf::Model;

const int NB = 3;        // buffers per world
const int NPTR = 3;      // evbuffer_ptr slots
const int MAXCB = 12;    // callback records per world
const size_t REF_REGION = 72 * 1024;

// ---- read-only region used for evbuffer_add_reference (a write into it faults) ----------------
static unsigned char *g_ref_region;
static inline void ref_region_init() {
  if (g_ref_region) return;
  void *p = mmap(nullptr, REF_REGION, PROT_READ | PROT_WRITE, MAP_PRIVATE | MAP_ANONYMOUS, -1, 0);
  if (p == MAP_FAILED) abort();
  g_ref_region = (unsigned char *)p;
  for (size_t i = 0; i < REF_REGION; i++) g_ref_region[i] = (unsigned char)bytebuf::payload_byte(0xbeef, i);
  mprotect(p, REF_REGION, PROT_READ);
}

struct CbRec {
  int buf = -1, id = 0; struct evbuffer_cb_entry *ent = nullptr;
  bool registered = false, enabled = false, nodefer = false;
  uint64_t gotA = 0, gotD = 0, expA = 0, expD = 0;
  int calls = 0, calls_in_turn = 0;
  int behavior = 0;   // 0 none, 1 add small, 2 drain small, 3 remove self, 4 disable self, 5 add then remove self
  int budget = 0;     // self-modifications left
  uint32_t seed = 0;
  bool skip_sum = false;   // sum oracle abandoned for the current op/turn (self-toggle in deferred mode)
  bool check_once = false; // removed itself during this op: compare its sums one last time at the end of the op
};
struct Eff { int b; bool add; std::string s; size_t n; };   // buffer change made by a callback, applied to the model after the op's own effect
struct PtrSlot { struct evbuffer_ptr p; int buf = -1; bool valid = false; size_t pos = 0; };

struct BufW {
  struct evbuffer *eb = nullptr; Model m;
  bool deferred = false; uint64_t pendA = 0, pendD = 0; bool taint = false;
  int max_chains = 0;
  bool fd_only = false;   // EVBUFFER_FLAG_DRAINS_TO_FD set: bytes leave only through write / drain (may hold sendfile chains)
  std::vector<int> snap;  // callbacks registered+enabled at op start
};

struct World {
  const char *prop = "C12";
  BufW B[NB]; PtrSlot P[NPTR]; CbRec C[MAXCB]; int ncb = 0;
  struct event_base *base = nullptr;
  bool use_cbs = false;
  // callback dispatch state
  int cb_depth = 0; bool in_turn = false; bool op_multi_step = false; bool cb_modified_in_op[NB] = {false, false, false};
  bool any_cb_mod_in_turn = false;
  // statistics / non-trivial evidence
  bool saw_multi_chain = false, saw_cross = false, saw_move = false;
  bool sharing = false; int n_bufref = 0, n_cycle_skips = 0, n_recreate = 0;   // chains shared through add_buffer_reference
  int n_cb_calls = 0, n_toggles = 0, n_selfmod = 0, n_deferred_runs = 0;
  int refs_added = 0, refs_cleaned = 0;
  // OOM mode
  bool oom_mode = false; bool oom_hit_in_op = false; int oom_consumed = 0; bool abandon = false;
  int opno = 0;
  std::vector<Eff> effs;
};
static World *W;
static inline const char *PK(const char *suffix) { static char k[4][80]; static int i; i = (i + 1) & 3; snprintf(k[i], sizeof k[i], "%s/%s", W->prop, suffix); return k[i]; }

// ------------------------------------------------------------------------------------------------
// Internal validator (evbuffer-internal.h): documented meaning of first/last/last_with_datap/total_len.
struct Geometry { int nchains = 0; size_t first_off = 0, first_misalign = 0, lwd_space = 0, last_len = 0; std::vector<size_t> bounds; };

static inline Geometry validate(const char *prop, int bi, const char *when) {
  World &w = *W; BufW &b = w.B[bi]; struct evbuffer *e = b.eb; Geometry g;
  char key[64];
#define VK(suffix) (snprintf(key, sizeof key, "%s/%s", prop, suffix), key)
  if (!e->first) {
    CHECK(e->last == nullptr, VK("chain-first-null-last-set"), "%s buf%d", when, bi);
    CHECK(e->last_with_datap == &e->first, VK("chain-lwdp-empty"), "%s buf%d: no chains but last_with_datap != &first", when, bi);
    CHECK(e->total_len == 0, VK("chain-total-len"), "%s buf%d: no chains, total_len=%zu", when, bi, e->total_len);
  } else {
    struct evbuffer_chain *c, *lastc = nullptr, *lwd = nullptr; struct evbuffer_chain **lwdp = &e->first, **pp = &e->first;
    size_t sum = 0; int n = 0; size_t pos = 0;
    for (c = e->first; c; pp = &c->next, c = c->next) {
      CHECK(++n < 100000, VK("chain-cycle"), "%s buf%d", when, bi);
      CHECK(c->refcnt > 0, VK("chain-refcnt"), "%s buf%d chain %d refcnt=%d", when, bi, n, c->refcnt);
      if (!(c->flags & EVBUFFER_SENDFILE)) {
        CHECK(c->misalign >= 0 && (size_t)c->misalign + c->off <= c->buffer_len, VK("chain-window"),
              "%s buf%d chain %d: misalign=%lld off=%zu buffer_len=%zu", when, bi, n, (long long)c->misalign, c->off, c->buffer_len);
        // contents against the model
        size_t avail = pos <= b.m.d.size() ? b.m.d.size() - pos : 0;
        CHECK(c->off <= avail, VK("content-mismatch"), "%s buf%d: chains hold more than the model's %zu bytes", when, bi, b.m.d.size());
        if (c->off && memcmp(c->buffer + c->misalign, b.m.d.data() + pos, c->off) != 0) {
          size_t k = 0; while (k < c->off && c->buffer[c->misalign + k] == (unsigned char)b.m.d[pos + k]) k++;
          VERIF_FAIL(VK("content-mismatch"), "%s buf%d: byte %zu differs (real %02x model %02x) len=%zu", when, bi, pos + k,
                     c->buffer[c->misalign + k], (unsigned char)b.m.d[pos + k], b.m.d.size());
        }
      }
      if (n == 1) { g.first_off = c->off; g.first_misalign = (size_t)c->misalign; }
      if (c->off) { lwd = c; lwdp = pp; }
      sum += c->off; pos += c->off; if (c->off) g.bounds.push_back(pos);
      lastc = c;
    }
    g.nchains = n;
    CHECK(e->last == lastc, VK("chain-last"), "%s buf%d: buf->last is not the final chain", when, bi);
    CHECK(e->total_len == sum, VK("chain-total-len"), "%s buf%d: total_len=%zu sum(off)=%zu", when, bi, e->total_len, sum);
    if (lwd) CHECK(e->last_with_datap == lwdp && *e->last_with_datap == lwd, VK("chain-lwdp"),
                   "%s buf%d: last_with_datap does not point at the last chain with data (%d chains)", when, bi, n);
    else CHECK(e->last_with_datap == &e->first, VK("chain-lwdp"), "%s buf%d: all chains empty but last_with_datap != &first", when, bi);
    struct evbuffer_chain *l = *e->last_with_datap;
    g.lwd_space = (l && !(l->flags & EVBUFFER_IMMUTABLE)) ? l->buffer_len - (size_t)l->misalign - l->off : 0;
    g.last_len = lastc->buffer_len;
  }
  if (!g.bounds.empty()) g.bounds.pop_back();   // the end of data is not an internal boundary
  CHECK(evbuffer_get_length(e) == b.m.d.size(), VK("length-mismatch"), "%s buf%d: evbuffer_get_length=%zu model=%zu", when, bi, evbuffer_get_length(e), b.m.d.size());
  CHECK((bool)e->freeze_start == b.m.fz_start && (bool)e->freeze_end == b.m.fz_end, VK("freeze-state"), "%s buf%d", when, bi);
  if (g.nchains > b.max_chains) b.max_chains = g.nchains;
  int datachains = (int)g.bounds.size() + (b.m.d.empty() ? 0 : 1);
  if (datachains >= 2) w.saw_multi_chain = true;
#undef VK
  return g;
}
static inline bool crosses(const Geometry &g, size_t x, size_t y) {  // does [x,y) contain an internal chain boundary strictly inside?
  for (size_t bd : g.bounds) if (bd > x && bd < y) return true;
  return false;
}

// ------------------------------------------------------------------------------------------------
// evbuffer_add_buffer_reference bookkeeping: a MULTICAST chain keeps a reference on its *source evbuffer*, so moving
// such a chain into (a buffer that is referenced by ...) its own source builds a reference cycle that is never freed
// (open finding C15/bufref-cycle-never-freed).  edges(b) = live buffers referenced by b's multicast chains.
static inline unsigned edges(int bi) {
  unsigned m = 0;
  for (struct evbuffer_chain *c = W->B[bi].eb->first; c; c = c->next) if (c->flags & EVBUFFER_MULTICAST) {
    struct evbuffer_multicast_parent *mp = EVBUFFER_CHAIN_EXTRA(struct evbuffer_multicast_parent, c);
    for (int k = 0; k < NB; k++) if (W->B[k].eb == mp->source) m |= 1u << k; }
  return m;
}
static inline bool reaches(int from, int to, unsigned seen = 0) {
  if (from == to) return true; if (seen & (1u << from)) return false; seen |= 1u << from;
  unsigned e = edges(from); for (int k = 0; k < NB; k++) if ((e & (1u << k)) && reaches(k, to, seen)) return true;
  return false;
}
static inline bool move_would_cycle(int src, int dst) { unsigned e = edges(src); for (int k = 0; k < NB; k++) if ((e & (1u << k)) && reaches(k, dst)) return true; return false; }
static inline bool has_unreferenceable(int bi) { for (struct evbuffer_chain *c = W->B[bi].eb->first; c; c = c->next) if (c->flags & (EVBUFFER_FILESEGMENT | EVBUFFER_SENDFILE | EVBUFFER_MULTICAST)) return true; return false; }
static inline bool has_special(int bi) { for (struct evbuffer_chain *c = W->B[bi].eb->first; c; c = c->next) if (c->flags & (EVBUFFER_SENDFILE)) return true; return false; }

// ------------------------------------------------------------------------------------------------
// change accounting for callbacks (C13); every model mutation goes through these
static inline void account(int bi, uint64_t A, uint64_t D, bool from_callback) {
  World &w = *W; BufW &b = w.B[bi];
  if (!w.use_cbs || (A == 0 && D == 0)) return;
  bool any = false;
  for (int i = 0; i < w.ncb; i++) if (w.C[i].registered && w.C[i].buf == bi) any = true;
  for (int i = 0; i < w.ncb; i++) {
    CbRec &c = w.C[i]; if (c.buf != bi) continue;
    bool member;
    if (from_callback) member = c.registered && c.enabled;
    else { member = false; for (int id : b.snap) if (id == i) member = true; }
    if (!member) continue;
    if (!b.deferred || c.nodefer) { c.expA += A; c.expD += D; }
  }
  if (b.deferred) { b.pendA += A; b.pendD += D; if (!any) { b.pendA = b.pendD = 0; } }
}
static inline void m_append(int bi, const std::string &s, bool from_cb = false) { W->B[bi].m.append(s); account(bi, s.size(), 0, from_cb); }
static inline void m_prepend(int bi, const std::string &s) { W->B[bi].m.prepend(s); account(bi, s.size(), 0, false); }
static inline std::string m_take(int bi, size_t n, bool from_cb = false) { std::string r = W->B[bi].m.take_front(n); account(bi, 0, r.size(), from_cb); return r; }

static inline void apply_effs() {
  World &w = *W;
  for (auto &e : w.effs) { if (e.add) w.B[e.b].m.append(e.s); else w.B[e.b].m.take_front(e.n); }
  w.effs.clear();
}
static inline void snapshot_cbs() {
  World &w = *W; if (!w.use_cbs) return;
  for (int bi = 0; bi < NB; bi++) { w.B[bi].snap.clear(); w.cb_modified_in_op[bi] = false; }
  for (int i = 0; i < w.ncb; i++) { CbRec &c = w.C[i]; c.skip_sum = false; if (c.registered && c.enabled) w.B[c.buf].snap.push_back(i); }
}

static void cb_fn(struct evbuffer *buffer, const struct evbuffer_cb_info *info, void *arg) {
  World &w = *W; CbRec &r = *(CbRec *)arg; int bi = r.buf; BufW &b = w.B[bi];
  w.n_cb_calls++;
  CHECK(r.registered, PK("removed-cb-called"), "callback %d on buf%d invoked after removal", r.id, bi);
  CHECK(r.enabled, PK("disabled-cb-called"), "callback %d on buf%d invoked while disabled", r.id, bi);
  CHECK(buffer == b.eb, PK("wrong-buffer"), "callback %d got a different buffer", r.id);
  if (b.deferred && !r.nodefer)
    CHECK(w.in_turn && w.cb_depth == 0, PK("deferred-cb-run-immediately"), "callback %d on deferred buf%d invoked outside the loop turn (depth %d)", r.id, bi, w.cb_depth);
  size_t len = evbuffer_get_length(buffer);
  TR("    cb%d(buf%d) orig=%zu added=%zu deleted=%zu len=%zu depth=%d", r.id, bi, info->orig_size, info->n_added, info->n_deleted, len, w.cb_depth);
  if (!w.cb_modified_in_op[bi])
    CHECK(info->orig_size + info->n_added - info->n_deleted == len, PK("size-identity"),
          "callback %d on buf%d: orig %zu + added %zu - deleted %zu != length %zu", r.id, bi, info->orig_size, info->n_added, info->n_deleted, len);
  r.gotA += info->n_added; r.gotD += info->n_deleted; r.calls++; r.calls_in_turn++;
  // self-modifying behaviours
  if (r.behavior == 0 || w.op_multi_step) return;
  int depth0 = w.cb_depth;
  w.cb_depth++;
  if ((r.behavior == 1 || r.behavior == 5) && r.budget > 0) {
    r.budget--; size_t k = 1 + r.seed % 5; std::string pl = bytebuf::payload(r.seed + r.calls, k);
    size_t ei = w.effs.size(); w.effs.push_back(Eff{bi, true, pl, k});   // recorded before the call: nested callbacks act after this add
    int rc = evbuffer_add(buffer, pl.data(), k);
    if (rc != 0) { w.effs[ei].s.clear(); w.effs[ei].n = 0; }
    TR("    cb%d adds %zu -> %d", r.id, k, rc);
    // (nested callbacks may have changed the length further, so the effect is taken from the return value)
    if (rc == 0) { w.cb_modified_in_op[bi] = true; w.any_cb_mod_in_turn = true; w.n_selfmod++; account(bi, k, 0, true); }
  } else if (r.behavior == 2 && r.budget > 0) {
    r.budget--; size_t k = 1 + r.seed % 4;
    size_t ei = w.effs.size(); w.effs.push_back(Eff{bi, false, std::string(), k < len ? k : len});
    int rc = evbuffer_drain(buffer, k); size_t took = (rc == 0) ? (k < len ? k : len) : 0;
    w.effs[ei].n = took;
    TR("    cb%d drains %zu -> %d", r.id, k, rc);
    if (took) { w.cb_modified_in_op[bi] = true; w.any_cb_mod_in_turn = true; w.n_selfmod++; account(bi, 0, took, true); }
  }
  w.cb_depth--;
  bool may_remove = depth0 == 0 || !verif_known("asan:heap-use-after-free@evbuffer_run_callbacks");
  if ((r.behavior == 3 || r.behavior == 5) && r.registered) {
    if (!may_remove) { verif_known_skipped("asan:heap-use-after-free@evbuffer_run_callbacks"); return; }
    if (r.behavior == 5 && r.budget > 0) return;     // remove only after the budget is used
    TR("    cb%d removes itself (depth %d)", r.id, depth0);
    evbuffer_remove_cb_entry(buffer, r.ent); r.registered = false; r.ent = nullptr; r.check_once = (depth0 == 0 && !b.deferred); r.skip_sum = !r.check_once; w.n_toggles++;
    bool any = false; for (int i = 0; i < w.ncb; i++) if (w.C[i].registered && w.C[i].buf == bi) any = true;
    if (!any && b.deferred) b.taint = true;
  } else if (r.behavior == 4 && depth0 == 0) {
    TR("    cb%d disables itself", r.id);
    evbuffer_cb_clear_flags(buffer, r.ent, EVBUFFER_CB_ENABLED); r.enabled = false; w.n_toggles++;
    if (b.deferred) r.skip_sum = true;
  }
}

// after every top-level op: immediate-mode (and NODEFER) callbacks must have been told exactly what happened
static inline void check_cb_sums(const char *when) {
  World &w = *W; if (!w.use_cbs) return;
  for (int i = 0; i < w.ncb; i++) {
    CbRec &c = w.C[i]; if (!c.registered && !c.check_once) continue;
    c.check_once = false;
    BufW &b = w.B[c.buf];
    if (b.deferred && !c.nodefer) continue;
    if (c.skip_sum) { c.expA = c.gotA; c.expD = c.gotD; continue; }
    if (b.deferred && c.nodefer) {
      if (c.gotA == c.expA && c.gotD == c.expD) continue;
      if (verif_known("C13/nodefer-cumulative")) { c.expA = c.gotA; c.expD = c.gotD; continue; }
      VERIF_FAIL("C13/nodefer-cumulative", "%s: NODEFER callback %d on deferred buf%d was told +%llu -%llu in total, actual changes +%llu -%llu",
                 when, c.id, c.buf, (unsigned long long)c.gotA, (unsigned long long)c.gotD, (unsigned long long)c.expA, (unsigned long long)c.expD);
    }
    CHECK(c.gotA == c.expA && c.gotD == c.expD, PK("sum-mismatch"), "%s: callback %d on buf%d was told +%llu -%llu in total, actual changes while enabled +%llu -%llu",
          when, c.id, c.buf, (unsigned long long)c.gotA, (unsigned long long)c.gotD, (unsigned long long)c.expA, (unsigned long long)c.expD);
  }
}

// one loop turn: deferred callbacks flush
static inline void do_turn() {
  World &w = *W; if (!w.base) return;
  // report-time assignment: everything pending goes to the callbacks enabled (and not NODEFER) now
  std::vector<int> members[NB];
  for (int i = 0; i < w.ncb; i++) { CbRec &c = w.C[i]; c.calls_in_turn = 0; c.skip_sum = false;
    if (c.registered && c.enabled && !c.nodefer && w.B[c.buf].deferred) members[c.buf].push_back(i); }
  snapshot_cbs();
  uint64_t pend0[NB];
  for (int bi = 0; bi < NB; bi++) pend0[bi] = w.B[bi].pendA + w.B[bi].pendD;
  w.in_turn = true; w.any_cb_mod_in_turn = false;
  for (int k = 0; k < 6; k++) { int before = w.n_cb_calls; event_base_loop(w.base, EVLOOP_NONBLOCK); if (w.n_cb_calls == before) break; }
  w.in_turn = false; apply_effs();
  for (int bi = 0; bi < NB; bi++) {
    BufW &b = w.B[bi]; if (!b.deferred) continue;
    for (int i : members[bi]) { CbRec &c = w.C[i];
      if (b.taint || c.skip_sum || !c.registered) { c.expA = c.gotA; c.expD = c.gotD; continue; }
      c.expA += b.pendA; c.expD += b.pendD;
      CHECK(c.gotA == c.expA && c.gotD == c.expD, PK("deferred-sum-mismatch"), "turn: deferred callback %d on buf%d was told +%llu -%llu in total, actual changes +%llu -%llu",
            c.id, bi, (unsigned long long)c.gotA, (unsigned long long)c.gotD, (unsigned long long)c.expA, (unsigned long long)c.expD);
      if (!w.any_cb_mod_in_turn) CHECK(c.calls_in_turn == (pend0[bi] ? 1 : 0), PK("deferred-not-aggregated"),
            "turn: deferred callback %d on buf%d invoked %d times for one flush (pending %llu)", c.id, bi, c.calls_in_turn, (unsigned long long)pend0[bi]);
      if (c.calls_in_turn) w.n_deferred_runs++;
    }
    // callbacks that were not members must not have been run by the flush
    for (int i = 0; i < w.ncb; i++) { CbRec &c = w.C[i]; if (c.buf != bi || c.nodefer) continue;
      bool mem = false; for (int j : members[bi]) if (j == i) mem = true;
      if (!mem) CHECK(c.calls_in_turn == 0, PK("disabled-cb-called"), "turn: callback %d (not enabled at flush) invoked", c.id); }
    b.pendA = b.pendD = 0; b.taint = false;
  }
  check_cb_sums("turn");
}

static void ref_cleanup(const void *data, size_t len, void *extra) { W->refs_cleaned++; }

static inline void world_init(World &w, const char *prop) {
  W = &w; w.prop = prop;
  for (int i = 0; i < NB; i++) { w.B[i].eb = evbuffer_new(); if (!w.B[i].eb) abort(); }
}
static inline void world_free(World &w) {
  if (w.base) do_turn();
  for (int i = 0; i < NB; i++) if (w.B[i].eb) { evbuffer_free(w.B[i].eb); w.B[i].eb = nullptr; }
  if (w.base) { event_base_free(w.base); w.base = nullptr; }
}

}  // namespace evb
