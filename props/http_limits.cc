// C25 — HTTP size limits (server side): evhttp_set_max_headers_size / evhttp_set_max_body_size / EVHTTP_SERVER_LINGERING_CLOSE.
//
// A case = one well-formed request (POST, one Host field; request line 16 bytes or, 1/8, padded to up to 40 KB; header section in one of
// four line structures: many short lines / one huge field line / one field folded over 0-250 continuation lines (obs-fold: lines starting
// with SP/HTAB runs, some with trailing whitespace) / short lines with continuation lines sprinkled in;
// body none / Content-Length / chunked in 1-4 chunks, optionally a very long chunk-size line made of leading zeros, optionally
// Expect: 100-continue; optionally cut off before the end: inside the header section, inside the request line, inside the long chunk-size line)
// + limits drawn relative to the actual sizes {unlimited, 0, 1, size-1, size, size+1, large} + lingering close on/off, delivered in two
// segmentations (whole, generated: random cuts / fixed pieces / around the end of the header section / one segment per line).
//
// The header-section measure is not documented ("XXX Document"), so the oracle brackets it:
//   min = sum of the field-line lengths without CRLF and without the request line; a continuation line counts only its content
//         (without the surrounding whitespace),
//   max = every byte from the request line to the empty line inclusive.
// Clauses (checked for every segmentation separately):
//   over-limit-delivered   a delivered request has min <= max_headers_size and body <= max_body_size (and the body is intact)
//   delivered-fields       the field names + values handed to the callback (as the application sees them, folds joined) sum to <= max_headers_size
//   parsed-fields          after every segment, no request still in progress holds more parsed field names + values than max_headers_size
//                          (what is parsed and kept is buffered too: it must not grow past the limit while the message is incomplete)
//   under-limit-rejected   max <= max_headers_size and body <= max_body_size  =>  the complete request is delivered (200)
//   no-answer              a complete request that is not delivered is answered 413/400 or the connection is closed
//   unbounded-buffering    with both limits finite, the connection's input buffer (sampled after every loop pass) never holds more
//                          than max(limits) + 2 read quanta (2 x 16 KiB)
#include "http_common.hh"
#include <algorithm>

namespace {
using namespace hw;
const char *K_CHUNKLINE = "C25/chunk-size-line-unbounded-buffering";
const size_t QUANTUM = 16384;
long pick_limit(Src &s, long a, long b) {   // around a (and b)
  switch (s.below(12)) { case 0: return -1; case 1: return 0; case 2: return 1; case 3: return a - 1; case 4: return a; case 5: return a + 1;
    case 6: return b - 1; case 7: return b; case 8: return b + 1; case 9: return 1 << 20; case 10: return a / 2; default: return a + 1 + (long)s.below(64); }
}
struct Line { std::string text; size_t min; bool cont; };   // min = what the line adds to the smallest defensible measure (continuation line: its content without the surrounding whitespace)
// names + values of the fields parsed so far for requests still in progress on the server's connections (read only)
size_t parsed_header_bytes(World &w) {
  size_t worst = 0; if (!w.http) return 0;
  struct evhttp_connection *c;
  TAILQ_FOREACH(c, &w.http->connections, next) { struct evhttp_request *r;
    TAILQ_FOREACH(r, &c->requests, next) { if (!r->input_headers) continue; size_t t = 0; struct evkeyval *kv;
      TAILQ_FOREACH(kv, r->input_headers, next) t += strlen(kv->key) + strlen(kv->value);
      worst = std::max(worst, t); } }
  return worst;
}
}  // namespace

extern "C" int LLVMFuzzerInitialize(int *, char ***) { sim_mem_install(); return 0; }

extern "C" int LLVMFuzzerTestOneInput(const uint8_t *data, size_t size) {
  sim_reset();
  verif_case_begin("C25");
  Src s(data, size);
  // ---- the request
  static const size_t BIG[] = {0, 1, 10, 100, 300, 1000, 5000, 40000, 70000};
  std::vector<Line> lines; size_t n_cont = 0;
  auto field = [&](const std::string &t) { lines.push_back({t, t.size(), false}); };
  auto cont = [&](unsigned v, size_t n) {   // continuation line (obs-fold): leading SP/HTAB run, n >= 1 content bytes, sometimes trailing whitespace
    static const char *LEAD[] = {" ", "\t", "  ", " \t "};
    lines.push_back({std::string(LEAD[v & 3]) + std::string(n, (char)('f' + v % 5)) + ((v & 4) ? " " : ""), n, true}); n_cont++; };
  field("Host: h");
  uint32_t shape = s.below(4);   // 0 many short lines, 1 one huge line, 2 one field folded over many continuation lines, 3 short lines with continuation lines sprinkled in
  if (shape == 1) { size_t n = s.chance(1, 5) ? BIG[5 + s.below(4)] : s.below(400); field("X-Big: " + std::string(n, 'a')); }
  else if (shape == 2) {
    static const size_t M[] = {40, 100, 250}, LMAX[] = {256, 64, 8};   // the value is re-allocated per continuation line: keep lines x lines x length bounded
    uint32_t big = s.chance(1, 4) ? 1 + s.below(3) : 0; size_t m = big ? M[big - 1] : s.below(24), L = 1 + s.below((uint32_t)(big ? LMAX[big - 1] : 64)); unsigned v = s.below(8);
    field("X-Fold: start");
    for (size_t i = 0; i < m; i++) cont(v + (unsigned)i, i % 3 == 2 ? 1 + i % 5 : L); }
  else { int k = s.below(40); for (int i = 0; i < k; i++) { uint32_t v = shape == 3 ? s.below(16) : s.below(4);
      field("X-" + std::to_string(i) + ": v" + std::string(v & 3, 'w'));
      for (uint32_t j = 0; j + 1 < (v >> 2); j++) cont(v + j + (unsigned)i, 1 + (v * 7 + i * 3 + j) % 40); } }
  size_t uri_pad = s.chance(1, 8) ? (s.chance(1, 4) ? BIG[5 + s.below(3)] : s.below(300)) : 0;   // the request line is a long single line too
  std::string reqline = "POST /p" + std::string(uri_pad, 'u') + " HTTP/1.1";
  int bkind = s.below(3);   // 0 none, 1 content-length, 2 chunked
  size_t blen = 0; if (bkind) { blen = s.chance(1, 8) ? BIG[5 + s.below(4)] : (s.flag() ? BIG[s.below(5)] : s.below(600)); }
  std::string body(blen, 'b'); for (size_t i = 0; i < blen; i += 7) body[i] = (char)('A' + (i / 7) % 26);
  bool expect = bkind && s.chance(1, 5);
  if (expect) field("Expect: 100-continue");
  std::string wire_body; size_t long_chunk_line = 0;
  if (bkind == 1) { field("Content-Length: " + std::to_string(blen)); wire_body = body; }
  else if (bkind == 2) {
    field("Transfer-Encoding: chunked");
    int k = 1 + s.below(4); size_t off = 0;
    if (s.chance(1, 6) && !(verif_known(K_CHUNKLINE) && (verif_known_skipped(K_CHUNKLINE), true))) { static const size_t Z[] = {10, 1000, 40000, 70000}; long_chunk_line = Z[s.below(4)]; }
    for (int i = 0; i < k && off < blen; i++) { size_t n = (i == k - 1) ? blen - off : 1 + s.below((uint32_t)(blen - off)); char b[32]; snprintf(b, sizeof b, "%zx\r\n", n);
      if (i == 0 && long_chunk_line) wire_body += std::string(long_chunk_line, '0');
      wire_body += b; wire_body.append(body, off, n); wire_body += "\r\n"; off += n; }
    if (blen == 0 && long_chunk_line) wire_body += std::string(long_chunk_line, '0');
    wire_body += "0\r\n\r\n";
  }
  size_t fields_min = 0, total_max = reqline.size() + 2 + 2; for (auto &f : lines) { fields_min += f.min; total_max += f.text.size() + 2; }
  std::string stream = reqline + "\r\n"; std::vector<size_t> line_ends; line_ends.push_back(stream.size());
  for (auto &f : lines) { stream += f.text + "\r\n"; line_ends.push_back(stream.size()); }
  stream += "\r\n"; size_t hdr_bytes = stream.size(); stream += wire_body;
  // optionally cut the request short (never completes): inside the header section, or inside the long chunk-size line
  bool complete = true; uint32_t cutmode = s.below(10);
  if (cutmode == 1 && hdr_bytes > 4) {
    size_t bl = shape == 1 ? stream.find("X-Big: ") : std::string::npos;
    if (bl != std::string::npos && s.flag()) { size_t le = stream.find("\r\n", bl); stream.resize(le - s.below((uint32_t)std::min<size_t>(le - bl, 8))); }   // inside / at the end of the huge line, no line end
    else stream.resize(hdr_bytes - 3 - s.below((uint32_t)std::min<size_t>(hdr_bytes - 4, 40)));
    complete = false; }
  else if (cutmode == 2 && long_chunk_line) { stream.resize(hdr_bytes + long_chunk_line - 1); complete = false; }
  else if (cutmode == 3 && uri_pad) { stream.resize(reqline.size() - s.below((uint32_t)std::min<size_t>(reqline.size(), 12))); complete = false; }   // inside / at the end of the request line, no line end
  // ---- limits
  long H = pick_limit(s, (long)fields_min, (long)total_max), B = pick_limit(s, (long)blen, (long)blen);
  if (H < -1) H = 0; if (B < -1) B = 0;
  bool lingering = s.chance(1, 3);
  static const char *SHAPE[] = {"short lines", "one huge line", "one folded field", "short lines with folds"};
  TR("request: request line %zu bytes, %zu field lines + %zu continuation lines (%s), header min=%zu max=%zu, body kind=%d len=%zu expect=%d long-chunk-line=%zu, %s (%zu bytes on the wire)", reqline.size(), lines.size() - n_cont, n_cont, SHAPE[shape], fields_min, total_max, bkind, blen, expect, long_chunk_line, complete ? "complete" : "cut short", stream.size());
  TR("limits: max_headers_size=%ld max_body_size=%ld lingering=%d", H, B, lingering);

  World w; w.backend = s.below(8) < 6 ? 0 : 1;
  if (!w.open()) { verif_case_end(0, s.h); return 0; }
  w.cbarg(0); evhttp_set_gencb(w.http, World::user_cb, w.cbargs[0]);
  evhttp_set_max_headers_size(w.http, H); evhttp_set_max_body_size(w.http, B);
  if (lingering) { int r = evhttp_set_flags(w.http, EVHTTP_SERVER_LINGERING_CLOSE); CHECK(r == 0, "C25/set-flags-failed", "evhttp_set_flags=%d", r); }

  bool hdr_ok_min = H < 0 || (long)fields_min <= H, hdr_ok_max = H < 0 || (long)total_max <= H, body_ok = B < 0 || (long)blen <= B;
  int delivered_any = 0, rejected_any = 0; bool line_segs = false;
  for (int k = 0; k < 2; k++) {
    std::vector<size_t> cuts; size_t parsed_hw = 0;
    if (k == 1) {
      uint32_t m = s.below(4);
      if (m == 0) { int n = 1 + s.below(6); for (int i = 0; i < n; i++) cuts.push_back(s.below((uint32_t)stream.size() + 1)); }
      else if (m == 1) { size_t step = 500 + s.below(4000); for (size_t p = step; p < stream.size() && cuts.size() < 40; p += step) cuts.push_back(p); }
      else if (m == 3) { size_t from = s.below((uint32_t)line_ends.size()); for (size_t i = from; i < line_ends.size() && cuts.size() < 16; i++) cuts.push_back(line_ends[i]); line_segs = true; }   // one segment per line
      else { cuts.push_back(hdr_bytes > 2 ? hdr_bytes - 2 : 1); cuts.push_back(hdr_bytes); if (hdr_bytes + 1 < stream.size()) cuts.push_back(hdr_bytes + 1 + s.below((uint32_t)(stream.size() - hdr_bytes - 1))); }
      std::sort(cuts.begin(), cuts.end()); cuts.erase(std::unique(cuts.begin(), cuts.end()), cuts.end());
    }
    w.input_high_water = 0;
    w.connect_client();
    size_t prev = 0; for (size_t i = 0; i <= cuts.size(); i++) { size_t e = i < cuts.size() ? std::min(cuts[i], stream.size()) : stream.size(); if (e > prev) { w.send_segment(stream.data() + prev, e - prev); parsed_hw = std::max(parsed_hw, parsed_header_bytes(w)); } prev = std::max(prev, e); }
    std::vector<Delivered> D = w.delivered; std::vector<Response> RS = parse_responses(w.resp, w.peer_closed); bool closed = w.peer_closed; size_t hw_ = w.input_high_water;
    w.close_client();
    int final_code = 0; for (auto &r : RS) if (r.code >= 200) { final_code = r.code; break; }
    TR("segmentation %d (%zu cuts): delivered=%zu final status=%d closed=%d input high-water=%zu parsed-fields high-water=%zu", k, cuts.size(), D.size(), final_code, closed, hw_, parsed_hw);
    CHECK(D.size() <= 1, "C25/duplicate-delivery", "one request sent, %zu delivered", D.size());
    if (!D.empty()) {
      delivered_any++;
      CHECK(complete, "C25/incomplete-delivered", "the request was cut short but was delivered");
      CHECK(hdr_ok_min, "C25/over-limit-headers-delivered", "header section is at least %zu bytes (field lines without CRLF) but max_headers_size=%ld; delivered anyway", fields_min, H);
      size_t seen = 0; for (auto &h : D[0].headers) seen += h.first.size() + h.second.size();
      CHECK(H < 0 || (long)seen <= H, "C25/delivered-fields-exceed-limit", "the callback was handed %zu bytes of field names + values with max_headers_size=%ld", seen, H);
      CHECK(body_ok, "C25/over-limit-body-delivered", "body of %zu bytes delivered with max_body_size=%ld", blen, B);
      CHECK(D[0].body == body, "C25/body-damaged", "delivered body (%zu bytes) differs from the %zu bytes sent", D[0].body.size(), blen);
      CHECK(final_code == 200, "C25/delivered-status", "delivered but final status %d", final_code);
    } else if (complete) {
      rejected_any++;
      if (long_chunk_line < 1000)   // a recipient may bound the length of a chunk-size line on its own (RFC 9112 7.1.1)
      CHECK(!(hdr_ok_max && body_ok), "C25/under-limit-rejected", "header section is at most %zu bytes and the body %zu bytes, limits are %ld / %ld, yet the request was not delivered (status %d, closed=%d)", total_max, blen, H, B, final_code, closed);
      CHECK(final_code == 413 || final_code == 400 || closed, "C25/over-limit-no-answer", "over-limit request neither answered with 413/400 nor closed (status %d)", final_code);
    }
    CHECK(H < 0 || (long)parsed_hw <= H, "C25/parsed-fields-exceed-limit", "a request in progress held %zu bytes of parsed field names + values with max_headers_size=%ld", parsed_hw, H);
    if (H >= 0 && B >= 0) {
      size_t bound = (size_t)std::max(H, B) + 2 * QUANTUM;
      CHECK(hw_ <= bound, long_chunk_line ? K_CHUNKLINE : "C25/unbounded-buffering", "input buffer held %zu bytes with max_headers_size=%ld max_body_size=%ld (bound: max limit + 2 read quanta = %zu)", hw_, H, B, bound);
    }
  }
  w.close_world();
  w.check_no_leak("C25/leak", "C25/fd-leak");

  auto near = [](long lim, long v) { return lim >= 0 && lim >= v - 1 && lim <= v + 1; };
  bool nt = near(H, (long)fields_min) || near(H, (long)total_max) || (bkind && near(B, (long)blen));
  if (delivered_any) verif_class("delivered"); if (rejected_any) verif_class("rejected"); if (!complete) verif_class("cut_short");
  if (bkind == 2) verif_class("chunked"); if (bkind == 1) verif_class("content_length"); if (expect) verif_class("expect_continue"); if (lingering) verif_class("lingering");
  if (n_cont) verif_class("folded_header"); if (n_cont >= 40) verif_class("many_continuation_lines"); if (uri_pad) verif_class("long_request_line"); if (line_segs) verif_class("segment_per_line");
  if (long_chunk_line) verif_class("long_chunk_size_line"); if (stream.size() > 20000) verif_class("big_input"); if (H >= 0 && B >= 0) verif_class("both_limits_finite");
  if (near(H, (long)fields_min) || near(H, (long)total_max)) verif_class("header_limit_at_boundary"); if (bkind && near(B, (long)blen)) verif_class("body_limit_at_boundary");
  verif_case_end(nt, s.h);
  return 0;
}
