// C24 — the HTTP client frames and parses responses as RFC 9112 prescribes.
//
// A case = 1-3 requests queued on one evhttp_connection (socketpair transport, evhttp_connection_base_bufferevent_reuse_new)
// + one response byte stream (grammar of interim / final responses with valid and adversarial framing, optional truncation
// = "peer closes at that byte", optional byte-level mutation; or, when the first input byte is 0xFF, raw bytes) delivered by
// the harness-as-server in 3-4 segmentations (whole stream in one write + generated cuts), the loop being run to quiescence
// after every segment.  Three observation points per run: (A) all bytes delivered, connection still open; (B) after the
// peer closed; (C) after 120 virtual seconds more.
//
// Oracles:
//  1. metamorphic, no RFC knowledge: per request (completed?, success/failure, status, reason, version, header list, body)
//     is identical for all segmentations at A, B and C.
//  2. three-valued differential against refs/http9112_client.hh at A (stream open) and B (stream closed): must-accept
//     responses are delivered exactly; no response is delivered for a request whose response is incomplete, must be
//     rejected, or would have to come over a connection that must not be reused; no claim after a may-item.
//     This includes "bytes after a complete response feed only the next queued request".
//  3. at C every request has completed exactly once, error callback at most once; no leaks (allocation + fd ledgers, ASan).
// Each root cause has its own key; when a key is listed as known the generator avoids the production and the stream is
// truncated in front of the first message the reference attributes to that key.
#include "http_client_common.hh"
#include "http9112_client.hh"
#include <algorithm>
#include <signal.h>

namespace {
using namespace hc;
using h9112c::Resp; using h9112c::Result; using h9112c::Method;

const char *K_SEG = "C24/segmentation-dependent";
const char *K_INTERIM = "C24/interim-1xx-delivered-as-final";
const char *K_100HDRS = "C24/interim-100-fields-kept";
const char *K_CONNECTBODY = "C24/connect-non-2xx-body-not-read";
const char *K_DUPCL = "C24/conflicting-content-length-accepted";
const char *K_CLMAL = "C24/malformed-content-length-accepted";
const char *K_TELIST = "C24/te-other-than-exact-chunked-ignored";
const char *K_HTAB = "C24/leading-htab-not-stripped";
const char *K_CHUNKEXT = "C24/chunk-ext-rejected";
const char *K_NOLEN = "C24/no-length-with-connection-field-read-as-empty";
const char *K_CLOSEOPT = "C24/close-option-not-honoured";
const char *K_CONNECTCLOSE = "C24/connect-response-close-option-ignored";
// which listed root cause (if any) explains that the connection was used again after response m
const char *key_for_reuse(const h9112c::Resp &m) {
  if ((m.features & h9112c::C_CLOSE_OPT) && !(m.features & h9112c::C_CLOSE_OPT_PLAIN)) return K_CLOSEOPT;   // whatever the method
  if ((m.features & h9112c::C_CLOSE_OPT) && (m.features & h9112c::C_CONNECT_OTHER)) return K_CONNECTCLOSE;  // (fixed) plain close on a refused CONNECT
  return nullptr;
}

struct ReqSpec { int cmd; Method kind; bool close_opt; bool expect; std::string body; };

// root-cause attribution from what the reference saw of a message
const char *key_for_features(uint32_t f, const ReqSpec &rq, h9112c::Framing fr, uint64_t cl) {
  using namespace h9112c;
  // root causes that apply whatever the request method is come first (a CONNECT request reaches them like any other one) ...
  if (f & C_TE_LIST) return K_TELIST;
  if ((f & C_CLOSE_DELIMITED) && (f & C_CONN_FIELD)) return K_NOLEN;
  // ... then the ones that only name a regression of something already fixed
  if (f & C_INTERIM_OTHER) return K_INTERIM;
  if ((f & C_INTERIM_100) && (f & C_INTERIM_FIELDS)) return K_100HDRS;
  if ((f & C_CONNECT_OTHER) && (fr == FR_CHUNKED || fr == FR_CLOSE || (fr == FR_CL && cl > 0))) return K_CONNECTBODY;
  if (f & C_CHUNK_EXT) return K_CHUNKEXT;
  if (f & C_HTAB_FRAMING) return K_HTAB;
  return nullptr;
}
const char *key_for_reason(const std::string &r) {
  if (r == "cl-conflict") return K_DUPCL;
  if (r == "cl-malformed") return K_CLMAL;
  return "C24/must-reject-accepted";
}

// ------------------------------------------------------------------------------------------------ generator
struct Gen {
  Src &s; std::string out;
  explicit Gen(Src &src) : s(src) {}
  bool avoid(const char *key) { if (verif_known(key)) { verif_known_skipped(key); return true; } return false; }

  std::string body_bytes() {
    switch (s.below(8)) {
      case 0: return "hello";
      case 1: return "HTTP/1.1 200 OK\r\nContent-Length: 1\r\n\r\nx";
      case 2: return "0\r\n\r\n";
      case 3: { size_t n = 1 + s.below(16); return s.bytes(n); }
      case 4: return "<html></html>";
      case 5: return "HTTP/1.1 404 Not Found\r\nTransfer-Encoding: chunked\r\n\r\n3\r\nabc\r\n0\r\n\r\n";
      case 6: return "";
      default: return "x";
    }
  }
  std::string header(const std::string &eol) {
    static const char *N[] = {"X-A", "Server", "Content-Type", "x-b", "X-A", "X|A~", "Date", "ETag"};
    static const char *V[] = {"v", "text/html", "a b", "a,b", "\x80\xff", "v1", "a\tb", "\"abc\""};
    static const char *LW[] = {"", " ", "  ", "\t", " \t "};
    std::string n = N[s.below(8)], v = V[s.below(8)];
    uint32_t r = s.below(64);
    if (r < 24) return n + ": " + v;
    if (r < 32) return n + ":" + LW[s.below(5)] + v + LW[s.below(5)];
    switch (r) {
      case 32: case 33: return s.flag() ? "X-E:" : "X-E: ";
      case 34: case 35: case 36: return n + ": a" + eol + (s.flag() ? " " : "\t") + "b";
      case 37: case 38: return n + (s.flag() ? " : " : "\t: ") + v;
      case 39: return "garbage-without-colon";
      case 40: return s.flag() ? std::string("X-N: a\0b", 8) : std::string("X-C: a\rb");
      case 41: case 42: case 43: return "Connection: close";
      case 44: case 45: return "Connection: keep-alive";
      case 46: case 47: { if (avoid(K_CLOSEOPT)) return "Connection: close"; static const char *C[] = {"Connection: close, x", "Connection: x, close", "connection: Keep-Alive, Close", "Connection: x\r\nConnection: close"}; return C[s.below(4)]; }
      case 48: { static const char *C[] = {"Connection: Close", "connection: CLOSE", "Connection:close"}; return C[s.below(3)]; }
      case 49: return s.flag() ? ": v" : "X(A): v";
      case 50: case 51: return n + ": " + std::string(40 + s.below(60), 'a');
      case 52: return "Transfer-Encoding : chunked";
      case 53: return "Content-Length : 3";
      case 54: return "Connection: upgrade";
      default: return n + ": " + v;
    }
  }
  std::string chunked_body(const std::string &eol) {
    std::string b; int n = s.below(4);
    auto sizeline = [&](size_t len, bool last) {
      char buf[40]; uint32_t f = s.below(8);
      if (f == 1) snprintf(buf, sizeof buf, "%zX", len); else if (f == 2) snprintf(buf, sizeof buf, "000%zx", len); else snprintf(buf, sizeof buf, "%zx", len);
      std::string l = buf;
      uint32_t e = s.below(last ? 40 : 32);
      if (e >= 1 && e <= 4) { static const char *X[] = {";x", ";x=y", ";x=\"a b\"", ";a;b=c", ";x=\"q\\\"r\""}; l += X[s.below(5)]; }
      else if (e == 5) { static const char *X[] = {" ;x", " ", ";", ";x=", "; x", ";x =y", "\t"}; l += X[s.below(7)]; }
      else if (e == 6 && !last) { static const char *X[] = {"+5", "0x5", "-5", "", "g", "5 5", "FFFFFFFFFFFFFFFFF", "7fffffffffffffff", "ffffffffffffffff", " 5"}; l = X[s.below(10)]; }
      return l + eol;
    };
    for (int i = 0; i < n; i++) {
      std::string d; switch (s.below(5)) { case 0: d = "hello"; break; case 1: d = "HTTP/1.1 200 OK\r\nContent-Length: 0\r\n\r\n"; break; case 2: d = s.bytes(1 + s.below(12)); break; case 3: d = "0\r\n\r\n"; break; default: d = "ab"; }
      b += sizeline(d.size(), false); b += d;
      uint32_t t = s.below(64); if (t == 1) {} else if (t == 2) b += "\n"; else b += eol;
    }
    b += sizeline(0, true);
    uint32_t t = s.below(16);
    if (t == 1 || t == 4) b += "X-T: v" + eol; else if (t == 2 || t == 5) b += "X-T: v" + eol + "Content-Length: 3" + eol; else if (t == 3) { static const char *X[] = {" folded", "no-colon", "X-T : v", "Transfer-Encoding: chunked"}; b += std::string(X[s.below(4)]) + eol; }
    b += eol;
    return b;
  }
  void interim(const ReqSpec &rq, const std::string &eol) {
    uint32_t r = s.below(16);
    if (r < 6) {   // 100 Continue
      out += "HTTP/1.1 100 Continue" + eol;
      if (s.chance(1, 4)) out += "X-Interim: i" + eol;
      out += eol;
    } else if (r < 12) {
      if (avoid(K_INTERIM)) return;
      static const char *I[] = {"HTTP/1.1 103 Early Hints\r\nLink: </style.css>; rel=preload\r\n\r\n", "HTTP/1.1 102 Processing\r\n\r\n", "HTTP/1.1 103 Early Hints\r\n\r\n", "HTTP/1.1 199 Whatever\r\nX-I: 1\r\n\r\n", "HTTP/1.0 100 Continue\r\n\r\n"};
      out += I[s.below(5)];
    } else if (r == 12) out += "HTTP/1.1 101 Switching Protocols\r\nUpgrade: x\r\nConnection: upgrade\r\n\r\n";
    else if (r == 13) out += "HTTP/1.1 100 Continue\r\nContent-Length: 3\r\n\r\nabc";
    else out += "HTTP/1.1 100 \r\n\r\n";
  }
  void message(const ReqSpec &rq) {
    std::string eol = s.chance(1, 64) ? "\n" : "\r\n";
    if (s.chance(1, 64)) out += eol;
    { uint32_t ni = s.below(16); int k = ni < 11 ? 0 : ni < 15 ? 1 : 2; if (rq.expect && s.flag()) k = std::max(k, 1); for (int i = 0; i < k; i++) interim(rq, eol); }
    // status line
    static const int ST[] = {200, 200, 200, 200, 404, 500, 204, 304, 201, 206, 301, 407, 403, 200, 503, 400};
    int st = ST[s.below(16)];
    std::string ver = "HTTP/1.1", reason;
    { uint32_t r = s.below(32); if (r >= 26 && r < 31) ver = "HTTP/1.0"; else if (r == 31) { static const char *ODD[] = {"HTTP/1.2", "HTTP/2.0", "HTTP/0.9", "http/1.1", "HTTP/1.10", "HTTP/01.1", "HTTP/1.", "HTTP/1.1 ", "XTTP/1.1", "HTTP/2"}; ver = ODD[s.below(10)]; } }
    { static const char *RS[] = {"OK", "OK", "OK", "", "Not Found", "Multi Word  Reason", "\x80\xfe", "OK ", "200"}; reason = RS[s.below(9)]; }
    { uint32_t r = s.below(64);
      if (r == 1) out += ver + " " + std::to_string(st) + eol;                       // no SP after the status code
      else if (r == 2) { static const char *C[] = {"20", "2000", "2xx", "099", "600", "999", "-200", "+200", " 200", "000"}; out += ver + " " + C[s.below(10)] + " " + reason + eol; }
      else if (r == 3) out += ver + "  " + std::to_string(st) + " " + reason + eol;
      else if (r == 4) out += ver + eol;
      else out += ver + " " + std::to_string(st) + " " + reason + eol; }
    std::vector<std::string> lines;
    int nx = s.below(4); for (int i = 0; i < nx; i++) lines.push_back(header(eol));
    // framing
    uint32_t fr = s.below(16); std::string body; std::vector<std::string> fl;
    bool connect_err = rq.kind == h9112c::M_CONNECT && !(st >= 200 && st < 300);
    if (fr <= 2) { /* no framing fields: close-delimited (or bodiless) */ body = (st == 204 || st == 304) ? "" : body_bytes(); }
    else if (fr <= 4) { fl.push_back("Content-Length: 0"); }
    else if (fr <= 8) { body = body_bytes(); fl.push_back((s.chance(1, 8) ? "content-length: " : "Content-Length: ") + std::to_string(body.size())); }
    else if (fr <= 12) { body = chunked_body(eol); fl.push_back(s.chance(1, 8) ? "transfer-encoding: chunked" : "Transfer-Encoding: chunked"); }
    else if (fr == 13) {
      body = body_bytes(); size_t n = body.size(); std::string N = std::to_string(n);
      switch (s.below(15)) {
        case 0: fl.push_back("Content-Length: " + N); fl.push_back("Content-Length: " + N); break;
        case 1: fl.push_back("Content-Length: " + N); fl.push_back("Content-Length: " + std::to_string(n + 1 + s.below(40))); if (s.flag()) std::swap(fl[0], fl[1]); break;
        case 2: fl.push_back("Content-Length: " + N + ", " + N); break;
        case 3: fl.push_back("Content-Length: " + N + ", " + std::to_string(n + 1)); break;
        case 4: fl.push_back("Content-Length: +" + N); break;
        case 5: fl.push_back("Content-Length: -" + N); break;
        case 6: fl.push_back("Content-Length: 0x" + N); break;
        case 7: fl.push_back("Content-Length: " + N + (s.flag() ? " abc" : "abc")); break;
        case 8: fl.push_back("Content-Length:"); break;
        case 9: fl.push_back("Content-Length: \t" + N); break;
        case 10: fl.push_back("Content-Length: 0" + N); break;
        case 11: fl.push_back("Content-Length: 99999999999999999999"); break;
        case 12: fl.push_back(s.flag() ? "Content-Length: 9223372036854775807" : "Content-Length: 9223372036854775808"); break;
        case 13: fl.push_back("Content-Length:\t" + N); break;
        default: fl.push_back("Content-Length: " + std::to_string(s.flag() ? n + 1 + s.below(30) : (n ? n - 1 : 0))); break;
      }
    } else if (fr == 14) {
      body = chunked_body(eol);
      switch (s.below(12)) {
        case 0: fl.push_back("Transfer-Encoding: Chunked"); break;
        case 1: fl.push_back("Transfer-Encoding: chunked "); break;
        case 2: if (avoid(K_TELIST)) { fl.push_back("Transfer-Encoding: chunked"); break; } fl.push_back("Transfer-Encoding: gzip, chunked"); break;
        case 3: fl.push_back("Transfer-Encoding: chunked, gzip"); break;
        case 4: if (avoid(K_TELIST)) { fl.push_back("Transfer-Encoding: chunked"); break; } fl.push_back("Transfer-Encoding: gzip"); if (s.flag()) { body = body_bytes(); fl.push_back("Content-Length: " + std::to_string(body.size())); } break;
        case 5: if (avoid(K_TELIST)) { fl.push_back("Transfer-Encoding: chunked"); break; } fl.push_back("Transfer-Encoding: identity"); if (s.flag()) { body = body_bytes(); fl.push_back("Content-Length: " + std::to_string(body.size())); } break;
        case 6: if (avoid(K_TELIST)) { fl.push_back("Transfer-Encoding: chunked"); break; } fl.push_back("Transfer-Encoding: gzip"); fl.push_back("Transfer-Encoding: chunked"); break;
        case 7: fl.push_back("Transfer-Encoding: chunked, chunked"); break;
        case 8: fl.push_back("Transfer-Encoding: chunked;q=1"); break;
        case 9: fl.push_back("Transfer-Encoding:"); break;
        case 10: fl.push_back("Transfer-Encoding: ,chunked"); break;
        default: fl.push_back("Transfer-Encoding:\tchunked"); break;
      }
    } else {
      body = chunked_body(eol); fl.push_back("Transfer-Encoding: chunked"); fl.push_back("Content-Length: " + std::to_string(s.flag() ? body.size() : s.below(8))); if (s.flag()) std::swap(fl[0], fl[1]);
    }
    // a bodiless response (HEAD, 204, 304, CONNECT 2xx) is mostly sent the way a real server would: framing fields, no body bytes
    if ((rq.kind == h9112c::M_HEAD || st == 204 || st == 304 || (rq.kind == h9112c::M_CONNECT && !connect_err)) && !s.chance(1, 8)) body.clear();
    for (auto &f : fl) { size_t at = s.below((uint32_t)lines.size() + 1); lines.insert(lines.begin() + at, f); }
    for (auto &l : lines) out += l + eol;
    out += eol; out += body;
  }
  void mutate() {
    int n = 1 + s.below(3);
    static const char INS[] = {'\r', '\n', ' ', '\t', ':', ';', ',', '0', '\0', '5', 'a', '"'};
    for (int i = 0; i < n && !out.empty(); i++) {
      size_t p = s.below((uint32_t)out.size());
      switch (s.below(5)) {
        case 0: out.erase(p, 1); break;
        case 1: out.insert(p, 1, INS[s.below(sizeof INS)]); break;
        case 2: out[p] = (char)s.byte(); break;
        case 3: out.resize(p); break;
        default: { size_t l = 1 + s.below(12); out.insert(p, out.substr(p, l)); break; }
      }
    }
  }
};

// ------------------------------------------------------------------------------------------------ observation
struct ReqObs { int cb = 0, err = 0; bool success = false; int code = 0, major = 0, minor = 0; std::string reason; std::vector<std::pair<std::string, std::string>> headers; std::string body; };
typedef std::vector<ReqObs> Obs;
Obs observe(World &w) { Obs o; for (ReqRec *r : w.recs) { ReqObs q; q.cb = r->cb_calls; q.err = r->err_calls; q.success = r->success; q.code = r->code; q.major = r->major; q.minor = r->minor; q.reason = r->reason; q.headers = r->headers; q.body = r->body; o.push_back(q); } return o; }
std::string show(const ReqObs &q) {
  if (!q.cb) return "pending";
  if (!q.success) return "FAILED(cb=" + std::to_string(q.cb) + ",err=" + std::to_string(q.err) + ")";
  std::string s = "HTTP/" + std::to_string(q.major) + "." + std::to_string(q.minor) + " " + std::to_string(q.code) + " '" + esc(q.reason, 30) + "' {";
  for (auto &h : q.headers) s += "[" + esc(h.first) + "|" + esc(h.second, 60) + "]";
  s += "} body(" + std::to_string(q.body.size()) + ")='" + esc(q.body, 80) + "'"; if (q.cb != 1) s += " cb=" + std::to_string(q.cb); return s; }
std::string show(const Obs &o) { std::string s; for (size_t i = 0; i < o.size(); i++) s += "\n      req" + std::to_string(i) + ": " + show(o[i]); return s; }
bool same(const ReqObs &a, const ReqObs &b) { return a.cb == b.cb && a.success == b.success && (a.err > 0) == (b.err > 0) && a.code == b.code && a.major == b.major && a.minor == b.minor && a.reason == b.reason && a.headers == b.headers && a.body == b.body; }
bool same(const Obs &a, const Obs &b) { if (a.size() != b.size()) return false; for (size_t i = 0; i < a.size(); i++) if (!same(a[i], b[i])) return false; return true; }

std::string collapse_ws(const std::string &v) { std::string o; bool ws = false; for (char c : v) { if (c == ' ' || c == '\t') { ws = true; continue; } if (ws && !o.empty()) o.push_back(' '); ws = false; o.push_back(c); } return o; }

// "" when the delivered response equals the reference message
std::string diff_msg(const ReqObs &d, const Resp &e, bool *only_htab, bool *interim_fields) {
  *only_htab = false; *interim_fields = false;
  if (d.code != e.status) return "status: client " + std::to_string(d.code) + " reference " + std::to_string(e.status);
  if (d.major != e.major || d.minor != e.minor) return "version differs";
  if (d.reason != e.reason) return "reason phrase: client '" + esc(d.reason) + "' reference '" + esc(e.reason) + "'";
  if (d.body != e.body) return "body: client (" + std::to_string(d.body.size()) + ")'" + esc(d.body, 60) + "' reference (" + std::to_string(e.body.size()) + ")'" + esc(e.body, 60) + "'";
  size_t nh = e.headers.size();
  if (d.headers.size() != nh && d.headers.size() != nh + e.trailers.size()) { if (d.headers.size() > nh && e.interim) *interim_fields = true; return "field count: client " + std::to_string(d.headers.size()) + " reference " + std::to_string(nh) + " (+" + std::to_string(e.trailers.size()) + " trailer fields)"; }
  bool htab_diff = false;
  for (size_t i = 0; i < d.headers.size(); i++) {
    const h9112::Field &f = i < nh ? e.headers[i] : e.trailers[i - nh];
    if (d.headers[i].first != f.name) { if (e.interim) *interim_fields = true; return "field " + std::to_string(i) + " name: client '" + esc(d.headers[i].first) + "' reference '" + esc(f.name) + "'"; }
    const std::string &v = d.headers[i].second;
    if (v == f.value) continue;
    if (f.folded && collapse_ws(v) == collapse_ws(f.value)) continue;
    if (f.htab_lead && h9112::trim_ows(v) == f.value) { htab_diff = true; continue; }
    return "field " + std::to_string(i) + " (" + esc(f.name) + ") value: client '" + esc(v) + "' reference '" + esc(f.value) + "'";
  }
  if (htab_diff) { *only_htab = true; return "a field value keeps its leading HTAB (OWS is SP / HTAB and is not part of the value)"; }
  return "";
}

std::vector<size_t> draw_cuts(Src &s, const std::string &st, int k) {
  std::vector<size_t> cuts; size_t len = st.size(); if (len < 2) return cuts;
  int mode = (int)((s.below(4) + (uint32_t)k) % 4);
  if (mode == 1 && len > 72) mode = 0;
  switch (mode) {
    case 0: { int n = 1 + s.below(6); for (int i = 0; i < n; i++) cuts.push_back(s.below((uint32_t)len)); if (cuts.size() == 1 && cuts[0] == 0) cuts[0] = len / 2; break; }
    case 1: for (size_t p = 1; p < len; p++) cuts.push_back(p); break;
    case 2: { size_t ls = 0; for (size_t p = 0; p < len && cuts.size() < 10; p++) if (st[p] == '\n' || p + 1 == len) { size_t ll = p + 1 - ls; if (ll > 1 && !s.chance(1, 4)) cuts.push_back(ls + 1 + s.below((uint32_t)ll - 1)); ls = p + 1; } break; }
    default: for (size_t p = 0; p + 1 < len && cuts.size() < 10; p++) if (st[p] == '\r') cuts.push_back(p + 1); if (cuts.empty()) cuts.push_back(len / 2); break;
  }
  std::sort(cuts.begin(), cuts.end()); cuts.erase(std::unique(cuts.begin(), cuts.end()), cuts.end());
  while (!cuts.empty() && cuts.front() == 0) cuts.erase(cuts.begin());
  return cuts;
}

const int CMDS[] = {EVHTTP_REQ_GET, EVHTTP_REQ_POST, EVHTTP_REQ_HEAD, EVHTTP_REQ_GET, EVHTTP_REQ_PUT, EVHTTP_REQ_CONNECT, EVHTTP_REQ_DELETE, EVHTTP_REQ_OPTIONS,
  EVHTTP_REQ_PATCH, EVHTTP_REQ_HEAD, EVHTTP_REQ_GET, EVHTTP_REQ_POST, EVHTTP_REQ_TRACE, EVHTTP_REQ_CONNECT, EVHTTP_REQ_GET, EVHTTP_REQ_HEAD};
ReqSpec spec_from(uint32_t c, bool close_opt, bool expect) {
  ReqSpec r; r.cmd = CMDS[c % 16]; r.kind = r.cmd == EVHTTP_REQ_HEAD ? h9112c::M_HEAD : r.cmd == EVHTTP_REQ_CONNECT ? h9112c::M_CONNECT : h9112c::M_OTHER;
  r.close_opt = close_opt; bool has_body = r.cmd == EVHTTP_REQ_POST || r.cmd == EVHTTP_REQ_PUT || r.cmd == EVHTTP_REQ_PATCH;
  r.body = has_body ? "request-body" : ""; r.expect = expect && has_body; return r;
}

struct RunOut { Obs a, b, c; bool has_a = true; };

// one delivery of the stream to a fresh connection
RunOut run_once(const std::vector<ReqSpec> &reqs, const std::string &stream, const std::vector<size_t> &cuts, bool close_with_last, bool half_close, int backend, uint64_t *segments) {
  RunOut out;
  World w; w.backend = backend; w.prop = "C24";
  CHECK(w.open_base(), "harness/base", "event_base_new failed");
  w.open_pair();
  for (auto &rq : reqs) {
    ReqRec *r = w.new_rec();
    struct evhttp_request *req = evhttp_request_new(World::done_cb, r);
    CHECK(req != nullptr, "harness/request-new", "evhttp_request_new failed");
    evhttp_request_set_error_cb(req, World::err_cb);
    r->req = req;
    struct evkeyvalq *oh = evhttp_request_get_output_headers(req);
    evhttp_add_header(oh, "Host", "h");
    if (rq.close_opt) evhttp_add_header(oh, "Connection", "close");
    if (rq.expect) evhttp_add_header(oh, "Expect", "100-continue");
    if (!rq.body.empty()) evbuffer_add(evhttp_request_get_output_buffer(req), rq.body.data(), rq.body.size());
    int rc = evhttp_make_request(w.evcon, req, (enum evhttp_cmd_type)rq.cmd, rq.cmd == EVHTTP_REQ_CONNECT ? "example.com:443" : "/p");
    CHECK(rc == 0, "harness/make-request", "evhttp_make_request=%d", rc);
  }
  w.pump();
  size_t prev = 0;
  for (size_t i = 0; i <= cuts.size(); i++) {
    size_t e = i < cuts.size() ? cuts[i] : stream.size();
    if (e > prev) { bool last = e == stream.size(); if (last && close_with_last) w.send_raw(stream.data() + prev, e - prev); else w.send_segment(stream.data() + prev, e - prev); (*segments)++; }
    prev = e;
  }
  if (close_with_last) out.has_a = false; else out.a = observe(w);
  if (half_close) w.half_close_server(); else w.close_server();
  out.b = observe(w);
  w.advance(120 * 1000000ll);
  w.advance(120 * 1000000ll);
  out.c = observe(w);
  for (ReqRec *r : w.recs) CHECK(r->err_calls <= 1, "C24/error-callback-twice", "request %d: error callback ran %d times", r->idx, r->err_calls);
  w.close_world();
  w.check_no_leak("C24/leak", "C24/fd-leak");
  return out;
}

const char *TN[] = {"end", "incomplete", "must-reject", "may", "no-reuse"};

// differential check of one observation point against the reference result for that point
void differential(const char *point, const Obs &o, const Result &R, const std::vector<ReqSpec> &reqs) {
  size_t n = R.msgs.size();
  for (size_t i = 0; i < n; i++) {
    const Resp &e = R.msgs[i]; const ReqObs &d = o[i];
    const char *k = key_for_features(e.features, reqs[i], e.framing, e.cl);
    if (d.cb == 0) VERIF_FAIL(k ? k : "C24/must-accept-not-delivered", "[%s] response %zu (status %d, bytes %zu..%zu) is complete and valid per RFC 9112 but request %zu has not completed; state:%s", point, i, e.status, e.begin, e.end, i, show(o).c_str());
    if (!d.success) {
      if (e.may_fail) return;    // a permitted failure: nothing is claimed about what follows
      VERIF_FAIL(k ? k : "C24/must-accept-failed", "[%s] response %zu (status %d, bytes %zu..%zu) is complete and valid per RFC 9112 but request %zu was completed with a failure; state:%s", point, i, e.status, e.begin, e.end, i, show(o).c_str());
    }
    bool only_htab, interim_fields; std::string df = diff_msg(d, e, &only_htab, &interim_fields);
    if (!df.empty()) {
      if (only_htab) k = K_HTAB; else if (interim_fields && !k) k = K_100HDRS;
      VERIF_FAIL(k ? k : "C24/must-accept-mismatch", "[%s] response %zu differs from the RFC 9112 reference: %s\n   client: %s", point, i, df.c_str(), show(d).c_str());
    }
  }
  if (n >= reqs.size()) return;
  if (R.term == h9112c::T_MAY) return;
  // no request from n on may have been answered from this stream
  for (size_t i = n; i < o.size(); i++) {
    if (!o[i].success) continue;
    const char *k = nullptr;
    if (i == n) k = key_for_features(R.term_features, reqs[n], R.term_framing, 1);
    if (!k && n > 0) k = key_for_features(R.msgs[n - 1].features, reqs[n - 1], R.msgs[n - 1].framing, R.msgs[n - 1].cl);
    switch (R.term) {
      case h9112c::T_REJECT: VERIF_FAIL(key_for_reason(R.reason), "[%s] the response for request %zu must be treated as an unrecoverable error (%s) but request %zu completed with a response: %s", point, n, R.reason.c_str(), i, show(o[i]).c_str());
      case h9112c::T_INCOMPLETE: VERIF_FAIL(k ? k : "C24/delivered-incomplete", "[%s] the stream ends inside the response for request %zu (%s) but request %zu completed with a response: %s", point, n, R.reason.c_str(), i, show(o[i]).c_str());
      case h9112c::T_NOREUSE: if (key_for_reuse(R.msgs[n - 1])) k = key_for_reuse(R.msgs[n - 1]);
        VERIF_FAIL(k ? k : "C24/reused-after-close", "[%s] response %zu carried / answered the close connection option, so the connection must not serve another request (RFC 9112 9.6), but request %zu completed with a response taken from the bytes that followed: %s", point, n - 1, i, show(o[i]).c_str());
      case h9112c::T_END: VERIF_FAIL(k ? k : "C24/delivered-beyond-stream", "[%s] the stream holds %zu response(s) but request %zu completed with a response: %s", point, n, i, show(o[i]).c_str());
      default: break;
    }
  }
}
}  // namespace

static void quiet_log(int sev, const char *msg) { if (sev >= EVENT_LOG_ERR) fprintf(stderr, "[err] %s\n", msg); }
extern "C" int LLVMFuzzerInitialize(int *, char ***) {
  sim_mem_install();
  signal(SIGPIPE, SIG_IGN);            // an application that writes to sockets with libevent has to do this (the client may write to a closed peer)
  event_set_log_callback(quiet_log);   // "connection failed" warnings for the refused reconnects
  return 0;
}

extern "C" int LLVMFuzzerTestOneInput(const uint8_t *data, size_t size) {
  sim_reset();
  verif_case_begin("C24");
  std::string stream; bool raw = false; std::vector<ReqSpec> reqs;
  const uint8_t *cd = data; size_t cn = size;
  if (size >= 4 && data[0] == 0xFF) {   // raw mode: 0xFF, request byte (low 2 bits: count-1; then 2 bits per request: 0 GET 1 HEAD 2 CONNECT 3 POST), k, k choice bytes, stream
    raw = true; uint8_t rb = data[1]; size_t k = data[2]; if (k > size - 3) k = size - 3;
    int nr = 1 + (rb & 3) % 3; static const uint32_t MAP[] = {0, 2, 5, 1};
    for (int i = 0; i < nr; i++) reqs.push_back(spec_from(MAP[(rb >> (2 + 2 * i)) & 3], false, false));
    cd = data + 3; cn = k; stream.assign((const char *)data + 3 + k, size - 3 - k);
  }
  Src s(cd, cn);
  if (!raw) {
    int nr = 1 + (int)(s.below(6) % 3);
    for (int i = 0; i < nr; i++) { uint32_t c = s.below(16); bool cl = s.chance(1, 24), ex = s.chance(1, 6); reqs.push_back(spec_from(c, cl, ex)); }
    Gen g(s);
    int nm = nr; { uint32_t r = s.below(16); if (r == 1 && nm > 1) nm--; else if (r == 2) nm++; }
    for (int i = 0; i < nm && g.out.size() < 1200; i++) g.message(reqs[std::min((size_t)i, reqs.size() - 1)]);
    if (s.chance(1, 8)) g.mutate();
    if (s.chance(1, 16)) { static const char *T[] = {"\r\n", "HTTP", "\r\n\r\n", "HTTP/1.1 200 OK\r\n", "0\r\n\r\n"}; g.out += T[s.below(5)]; }
    if (s.chance(1, 4) && !g.out.empty()) g.out.resize(s.below((uint32_t)g.out.size() + 1));    // the peer closes at this byte
    stream = g.out;
  }
  if (stream.size() > 1600) stream.resize(1600);
  for (unsigned char c : stream) s.mix(c);
  for (auto &r : reqs) s.mix((uint64_t)r.cmd * 4 + r.close_opt * 2 + r.expect);

  std::vector<Method> methods; std::vector<bool> rclose; for (auto &r : reqs) { methods.push_back(r.kind); rclose.push_back(r.close_opt); }
  // reference parses (open / closed); narrow away sub-domains that belong to listed findings
  Result RA, RB;
  for (int it = 0; it < 8; it++) {
    RA = h9112c::parse(stream, methods, rclose, false); RB = h9112c::parse(stream, methods, rclose, true);
    const char *hit = nullptr; size_t at = 0;
    for (const Result *R : {&RA, &RB}) {
      if (hit) break;
      for (size_t i = 0; i < R->msgs.size(); i++) { const Resp &m = R->msgs[i];
        const char *cand[3] = {key_for_features(m.features, reqs[i], m.framing, m.cl), (m.features & h9112c::C_HTAB_OWS) ? K_HTAB : nullptr,
                               (m.must_not_reuse && m.end < stream.size() && i + 1 < reqs.size()) ? key_for_reuse(m) : nullptr};
        for (const char *k : cand) if (k && verif_known(k)) { hit = k; at = m.begin; break; }
        if (hit) break; }
      size_t n = R->msgs.size();
      if (!hit && n < reqs.size() && R->term != h9112c::T_END && R->term != h9112c::T_NOREUSE) {
        const char *k = key_for_features(R->term_features, reqs[n], R->term_framing, 1);
        if (!k && R->term == h9112c::T_REJECT) k = key_for_reason(R->reason);
        if (k && R->term_pos < stream.size() && verif_known(k)) { hit = k; at = R->term_pos; } }
    }
    if (!hit) break;
    verif_known_skipped(hit); stream.resize(at);
  }
  TR("requests: %zu", reqs.size()); for (auto &r : reqs) TR("  %s%s%s body=%zu", cmd_name(r.cmd), r.close_opt ? " Connection:close" : "", r.expect ? " Expect:100-continue" : "", r.body.size());
  TR("stream (%zu bytes): %s", stream.size(), esc(stream, 1600).c_str());
  for (const Result *R : {&RA, &RB}) {
    TR("reference (%s): %zu response(s), terminal=%s%s%s at %zu", R == &RA ? "open" : "closed", R->msgs.size(), TN[R->term], R->reason.empty() ? "" : ":", R->reason.c_str(), R->term_pos);
    for (auto &m : R->msgs) TR("  ref resp %d HTTP/%d.%d '%s' fields=%zu trailers=%zu body=%zu framing=%d interim=%d%s%s%s feat=0x%x [%zu..%zu)", m.status, m.major, m.minor, esc(m.reason, 30).c_str(), m.headers.size(), m.trailers.size(), m.body.size(), (int)m.framing, m.interim,
                             m.may_fail ? " may-fail" : "", m.must_not_reuse ? " no-reuse" : "", m.may_not_reuse ? " may-not-reuse" : "", m.features, m.begin, m.end);
  }

  int backend; { uint32_t b = s.below(8); backend = b < 6 ? 0 : (int)b - 5; }
  bool half_close = s.chance(1, 4);
  // Writing the last segment and closing in one step is only equivalent to "last segment, then close" when the client cannot be
  // in its writing state when the EOF arrives: one request, and no 100 status (the only one that makes it write again).
  bool cwl_ok = reqs.size() == 1 && stream.find("100") == std::string::npos;
  int nseg = 2 + s.below(2); RunOut ref; int inside_splits = 0; uint64_t total_segments = 0;
  for (int k = 0; k <= nseg; k++) {
    std::vector<size_t> cuts; bool cwl = false;
    if (k > 0) { cuts = draw_cuts(s, stream, k); cwl = s.chance(1, 3) && cwl_ok; }
    if (verif_trace_on) { std::string c; for (size_t p : cuts) c += std::to_string(p) + ","; TR("segmentation %d: cuts=[%s]%s%s", k, c.c_str(), cwl ? " close-with-last-segment" : "", half_close ? " half-close" : ""); }
    RunOut o = run_once(reqs, stream, cuts, cwl, half_close, backend, &total_segments);
    if (o.has_a) TR("  open:   %s", show(o.a).c_str());
    TR("  closed: %s", show(o.b).c_str());
    if (!same(o.b, o.c)) TR("  +240s:  %s", show(o.c).c_str());
    for (size_t i = 0; i < o.c.size(); i++) CHECK(o.c[i].cb == 1, o.c[i].cb == 0 ? "C24/request-never-completed" : "C24/completed-twice", "segmentation %d: request %zu had its completion callback run %d time(s) although the peer closed the connection and 240 s passed; state:%s", k, i, o.c[i].cb, show(o.c).c_str());
    if (k == 0) ref = o;
    else {
      if (o.has_a) CHECK(same(o.a, ref.a), K_SEG, "segmentation %d gives a different result than the unsegmented stream (all bytes delivered, connection open):\n   unsegmented:%s\n   segmented:%s", k, show(ref.a).c_str(), show(o.a).c_str());
      CHECK(same(o.b, ref.b), K_SEG, "segmentation %d gives a different result than the unsegmented stream (after the peer closed):\n   unsegmented:%s\n   segmented:%s", k, show(ref.b).c_str(), show(o.b).c_str());
      CHECK(same(o.c, ref.c), K_SEG, "segmentation %d gives a different result than the unsegmented stream (240 s after the close):\n   unsegmented:%s\n   segmented:%s", k, show(ref.c).c_str(), show(o.c).c_str());
      bool inside = false;
      for (size_t p : cuts) { if (p == 0 || p >= stream.size() || stream[p - 1] == '\n') continue;
        for (auto &m : RB.msgs) { if (p > m.begin && p < m.hdr_end) inside = true; for (auto &cl : m.chunk_lines) if (p > cl.first && p < cl.second) inside = true; } }
      if (inside) inside_splits++;
    }
  }

  // ---- differential
  differential("open", ref.a, RA, reqs);
  differential("closed", ref.b, RB, reqs);
  // a response delivered while the stream was open must not change afterwards
  for (size_t i = 0; i < ref.a.size(); i++) if (ref.a[i].cb) CHECK(same(ref.a[i], ref.b[i]) && same(ref.b[i], ref.c[i]), "C24/result-changed-after-completion", "request %zu: completed result changed after the close", i);

  // ---- evidence
  const Result &R = RB; size_t n = R.msgs.size(); size_t succ = 0; for (auto &q : ref.b) if (q.success) succ++;
  verif_class(TN[R.term]); if (!R.reason.empty()) verif_class(("term:" + R.reason).c_str());
  uint32_t feats = 0; for (auto &mm : R.msgs) feats |= mm.features;
  using namespace h9112c;
  static const struct { uint32_t f; const char *n; } FN[] = {{C_CHUNK_EXT, "chunk_ext"}, {C_HTAB_OWS, "htab_ows"}, {C_TE_LIST, "te_list"}, {C_TE_CL, "te_and_cl"}, {C_CL_REPEAT, "cl_repeat"}, {C_FOLD, "obs_fold"},
    {C_INTERIM_100, "interim_100"}, {C_INTERIM_OTHER, "interim_other"}, {C_TRAILERS, "trailers"}, {C_CHUNKED, "chunked"}, {C_CL, "content_length"}, {C_CLOSE_OPT, "close_option"}, {C_HTTP10, "http10"},
    {C_CLOSE_DELIMITED, "close_delimited"}, {C_BODILESS_STATUS, "status_204_304"}, {C_HEAD, "head"}, {C_CONNECT_2XX, "connect_2xx"}, {C_CONNECT_OTHER, "connect_non2xx"}, {C_TE_NOT_CHUNKED, "te_not_chunked"}};
  for (auto &f : FN) if (feats & f.f) verif_class(f.n);
  if (n >= 2) verif_class("responses>=2"); if (succ >= 2) verif_class("delivered>=2"); if (succ >= 1) verif_class("delivered>=1");
  if (reqs.size() >= 2) verif_class("queued>=2"); if (raw) verif_class("raw_mode");
  { bool anyfail = false; for (auto &q : ref.b) if (q.cb && !q.success) anyfail = true; if (anyfail) verif_class("failure_reported"); }
  if (RA.term == T_INCOMPLETE && RB.term != T_INCOMPLETE) verif_class("completed_by_close");
  verif_class_n("segments_written", total_segments);
  bool rich = n >= 2 || (feats & (C_CHUNKED | C_INTERIM_100 | C_INTERIM_OTHER | C_FOLD));
  int nontrivial = rich && succ >= 1 && inside_splits >= 2;
  verif_case_end(nontrivial, s.h);
  return 0;
}
