// C30 — requests are routed to the callback registered for their path and host.
//
// A case = a generated server configuration (registered paths on the root and on vhosts, generic callbacks or none,
// wildcard vhost patterns incl. one nested level, aliases, an allowed-method mask) + 1-3 well-formed pipelined requests whose
// targets / Host values are derived from the configuration (escaped spellings of registered paths, %00, %2F, case changes,
// query strings, absolute-form targets, Host with port / case changes / aliases).  Every request is valid HTTP/1.1 with one
// Host field (none of the C23 framing corner cases are generated), so routing is the only thing that decides the outcome.
//
// Oracle = reference router written from the header documentation and the property statement:
//   method outside the mask -> 501, no callback;
//   host = host of an absolute-form target, else Host field without a trailing ":digits";
//   server = the node owning an alias equal to host (ASCII case-insensitive), else descend from the root into the first
//            vhost (in registration order) whose glob pattern ('*' = any run of characters, also empty; case-insensitive) matches;
//   callback = the one registered on that node for a path byte-wise equal (length-aware) to the percent-decoded request path
//            ('+' untouched), else the node's generic callback, else 404.
#include "http_common.hh"
#include <algorithm>

namespace {
using namespace hw;
const char *K_NUL = "C30/nul-truncates-path";
const char *K_STAR = "C30/vhost-trailing-star-never-matches";
const char *K_DSLASH = "C30/double-slash-target-parsed-as-authority";

struct Node { struct evhttp *h = nullptr; std::string pattern; std::vector<std::string> aliases; std::vector<std::pair<std::string, int>> paths; int gen_id = -1; std::vector<int> kids; int parent = -1; };
struct Cfg { std::vector<Node> nodes; uint32_t mask = 0; };

// --- reference matcher (documentation: "glob pattern ... case insensitive and follows otherwise regular shell matching")
bool glob(const char *p, const char *n, bool star_needs_rest) {
  for (;; p++, n++) {
    if (*p == '*') {
      if (star_needs_rest) { for (; *n; n++) if (glob(p + 1, n, true)) return true; return false; }   // attribution only: what the code does
      for (;; n++) { if (glob(p + 1, n, false)) return true; if (!*n) return false; }
    }
    if (!*p) return !*n;
    if (tolower((unsigned char)*p) != tolower((unsigned char)*n)) return false;
  }
}
bool ieq(const std::string &a, const std::string &b) { if (a.size() != b.size()) return false; for (size_t i = 0; i < a.size(); i++) if (tolower((unsigned char)a[i]) != tolower((unsigned char)b[i])) return false; return true; }
int find_alias(const Cfg &c, int i, const std::string &host) { for (auto &a : c.nodes[i].aliases) if (ieq(a, host)) return i; for (int k : c.nodes[i].kids) { int r = find_alias(c, k, host); if (r >= 0) return r; } return -1; }
int pick_node(const Cfg &c, const std::string &host, bool buggy_star) {
  int a = find_alias(c, 0, host); if (a >= 0) return a;
  int cur = 0; for (;;) { int nxt = -1; for (int k : c.nodes[cur].kids) if (glob(c.nodes[k].pattern.c_str(), host.c_str(), buggy_star)) { nxt = k; break; } if (nxt < 0) return cur; cur = nxt; }
}
std::string pct_decode(const std::string &s) { std::string o; for (size_t i = 0; i < s.size(); i++) { if (s[i] == '%' && i + 2 < s.size() + 0 && isxdigit((unsigned char)s[i + 1]) && isxdigit((unsigned char)s[i + 2])) { o.push_back((char)strtol(s.substr(i + 1, 2).c_str(), nullptr, 16)); i += 2; } else o.push_back(s[i]); } return o; }
// expected callback id on a node; -404 = not found
int route(const Node &n, const std::string &decoded, bool cstring_compare) {
  for (auto &p : n.paths) { if (cstring_compare ? !strcmp(p.first.c_str(), decoded.c_str()) : p.first == decoded) return p.second; }
  return n.gen_id >= 0 ? n.gen_id : -404;
}
std::string escape_for_target(Src &s, const std::string &path) {   // a spelling of `path` that is a valid origin-form path and decodes to it
  std::string o; static const char *HEX = "0123456789ABCDEF", *hex = "0123456789abcdef";
  for (size_t i = 0; i < path.size(); i++) { unsigned char c = path[i];
    bool must = !(isalnum(c) || strchr("-._~!$&'()*,;=:@/", c)) || c == 0;   // '+' is escaped too: it must stay a '+' after decoding either way
    if (c == '+') must = s.flag();
    if (i == 0) { o.push_back((char)c); continue; }   // the leading '/' stays literal (origin-form)
    if (must || s.chance(1, 8)) { const char *H = s.flag() ? HEX : hex; o.push_back('%'); o.push_back(H[c >> 4]); o.push_back(H[c & 15]); } else o.push_back((char)c); }
  return o;
}
}  // namespace

extern "C" int LLVMFuzzerInitialize(int *, char ***) { sim_mem_install(); return 0; }

extern "C" int LLVMFuzzerTestOneInput(const uint8_t *data, size_t size) {
  sim_reset();
  verif_case_begin("C30");
  Src s(data, size);
  World w; w.backend = s.below(8) < 6 ? 0 : 1;
  if (!w.open()) { verif_case_end(0, s.h); return 0; }

  static const char *PATHS[] = {"/", "/a", "/admin", "/a b", "/a/b", "/a?b", "/a#b", "/100%", "/\xc3\xa9", "/Admin", "/a+b", "/adm", "/admin/x"};
  static const char *PATTERNS[] = {"*.example.com", "foo.example.com", "*", "a*c", "EXAMPLE.org", "www.*", "*.b.example.com", "f*.example.com", "*o.example.*"};
  static const char *ALIASES[] = {"alias.test", "WWW.Example.com", "other.example.org", "x"};
  const int NP = sizeof PATHS / sizeof *PATHS;
  Cfg c; int next_id = 1;
  auto setup_node = [&](Node &n) {
    int np = s.below(4); for (int i = 0; i < np; i++) { std::string p = PATHS[s.below(NP)]; bool dup = false; for (auto &q : n.paths) if (q.first == p) dup = true;
      int id = next_id++; int r = evhttp_set_cb(n.h, p.c_str(), World::user_cb, w.cbarg(id));
      CHECK(r == (dup ? -1 : 0), "C30/set-cb-result", "evhttp_set_cb('%s') returned %d, duplicate=%d", esc(p).c_str(), r, dup);
      if (!dup) n.paths.push_back({p, id}); TR("  node%zu set_cb '%s' -> id %d (r=%d)", (size_t)(&n - &c.nodes[0]), esc(p).c_str(), id, r); }
    if (s.chance(2, 3)) { n.gen_id = next_id++; evhttp_set_gencb(n.h, World::user_cb, w.cbarg(n.gen_id)); TR("  node%zu gencb -> id %d", (size_t)(&n - &c.nodes[0]), n.gen_id); }
  };
  c.nodes.reserve(8); c.nodes.push_back(Node()); c.nodes[0].h = w.http; setup_node(c.nodes[0]);
  int nv = s.below(4); size_t alias_used = 0;
  for (int v = 0; v < nv; v++) {
    int parent = (v > 0 && s.chance(1, 3)) ? 1 + (int)s.below((uint32_t)c.nodes.size() - 1) : 0;
    Node n; n.h = evhttp_new(w.base); n.pattern = PATTERNS[s.below(sizeof PATTERNS / sizeof *PATTERNS)]; n.parent = parent;
    int r = evhttp_add_virtual_host(c.nodes[parent].h, n.pattern.c_str(), n.h);
    CHECK(r == 0, "C30/add-vhost-failed", "evhttp_add_virtual_host('%s')=%d", n.pattern.c_str(), r);
    c.nodes.push_back(n); int idx = (int)c.nodes.size() - 1; c.nodes[parent].kids.push_back(idx);
    TR("node%d = vhost '%s' under node%d", idx, n.pattern.c_str(), parent);
    setup_node(c.nodes[idx]);
  }
  int na = s.below(3);
  for (int a = 0; a < na && alias_used < 4; a++) { int idx = s.below((uint32_t)c.nodes.size()); std::string al = ALIASES[alias_used++];
    int r = evhttp_add_server_alias(c.nodes[idx].h, al.c_str()); CHECK(r == 0, "C30/add-alias-failed", "r=%d", r); c.nodes[idx].aliases.push_back(al); TR("node%d alias '%s'", idx, al.c_str()); }
  static const uint32_t MASKS[] = {0, ALL_METHODS, EVHTTP_REQ_GET, EVHTTP_REQ_GET | EVHTTP_REQ_POST, EVHTTP_REQ_POST | EVHTTP_REQ_OPTIONS | EXT_PURGE, 0xffff};
  uint32_t mi = s.below(6); c.mask = mi == 0 ? (EVHTTP_REQ_GET | EVHTTP_REQ_POST | EVHTTP_REQ_HEAD | EVHTTP_REQ_PUT | EVHTTP_REQ_DELETE) : MASKS[mi];
  if (mi != 0) evhttp_set_allowed_methods(w.http, c.mask); else evhttp_set_allowed_methods(w.http, c.mask);   // mi==0: the documented default set, stated explicitly
  TR("allowed mask 0x%x", c.mask);

  // ---- requests
  struct Exp { std::string method, target, host, hostname, decoded; int node, node_buggy; int cb, cb_cstr; bool allowed; bool skip; };
  std::vector<Exp> exps; std::string stream; int nreq = 1 + s.below(3); bool saw_escape_match = false, saw_vhost = false, saw_501 = false, saw_nul = false;
  for (int q = 0; q < nreq; q++) {
    Exp e; static const char *M[] = {"GET", "GET", "POST", "GET", "PUT", "DELETE", "OPTIONS", "PATCH", "PURGE", "M-SEARCH", "GET", "MOVE", "BREW"};
    e.method = M[s.below(sizeof M / sizeof *M)];
    // path: a registered path of some node (mostly), or an unregistered neighbour
    std::string base;
    { std::vector<std::string> reg; for (auto &n : c.nodes) for (auto &p : n.paths) reg.push_back(p.first);
      if (!reg.empty() && s.chance(3, 4)) base = reg[s.below((uint32_t)reg.size())]; else base = PATHS[s.below(NP)]; }
    std::string path = escape_for_target(s, base);
    switch (s.below(12)) {
      case 1: path += "%00x"; break;
      case 2: path += "%00"; break;
      case 3: path += "/"; break;
      case 4: if (base.size() > 1) path = escape_for_target(s, base.substr(0, base.size() - 1)); break;
      case 5: { std::string alt = base; for (auto &ch : alt) if (isalpha((unsigned char)ch)) { ch = (char)(ch ^ 0x20); break; } path = escape_for_target(s, alt); break; }
      case 6: path += "x"; break;
      default: break;
    }
    std::string query; switch (s.below(6)) { case 1: query = "?x=1"; break; case 2: query = "?"; break; case 3: query = "?/admin"; break; case 4: query = "?a=%00"; break; default: break; }
    static const char *HOSTS[] = {"h", "foo.example.com", "FOO.EXAMPLE.COM", "foo.example.com:8080", "foo.example.com.", "alias.test", "ALIAS.TEST:80", "www.example.com", "other.example.org", "abc", "ac", "example.org",
      "a.b.example.com", "www.", "www.x", ".example.com", "x", "o.example.", "example.com"};
    e.host = HOSTS[s.below(sizeof HOSTS / sizeof *HOSTS)];
    std::string urihost;
    if (s.chance(1, 6)) { urihost = HOSTS[s.below(sizeof HOSTS / sizeof *HOSTS)]; e.target = "http://" + urihost + path + query; } else e.target = path + query;
    // reference
    std::string hn = urihost.empty() ? e.host : urihost;
    { size_t k = hn.size(); while (k > 0 && isdigit((unsigned char)hn[k - 1])) k--; if (k > 0 && k < hn.size() + 1 && hn[k - 1] == ':' && k - 1 > 0) hn = hn.substr(0, k - 1); }
    e.hostname = hn; e.decoded = pct_decode(path);
    uint32_t t = method_type(e.method); e.allowed = t != 0 && (c.mask & t) != 0;
    e.node = pick_node(c, hn, false); e.node_buggy = pick_node(c, hn, true);
    e.cb = route(c.nodes[e.node], e.decoded, false); e.cb_cstr = route(c.nodes[e.node], e.decoded, true);
    e.skip = false;
    if (e.allowed) {
      if (e.node_buggy != e.node && verif_known(K_STAR)) { verif_known_skipped(K_STAR); e.skip = true; }
      if (e.decoded.find('\0') != std::string::npos && verif_known(K_NUL)) { verif_known_skipped(K_NUL); e.skip = true; }
      if (e.target.compare(0, 2, "//") == 0 && verif_known(K_DSLASH)) { verif_known_skipped(K_DSLASH); e.skip = true; }
    }
    if (e.skip) continue;   // the request is not sent at all
    stream += e.method + " " + e.target + " HTTP/1.1\r\nHost: " + e.host + "\r\n";
    if (t == EXT_PURGE || e.method == "POST" || e.method == "PUT") stream += "Content-Length: 2\r\n\r\nok"; else stream += "\r\n";
    TR("request %s %s Host: %s -> hostname '%s' node%d decoded '%s' expect %s%d", e.method.c_str(), esc(e.target).c_str(), e.host.c_str(), esc(hn).c_str(), e.node, esc(e.decoded).c_str(), e.allowed ? "cb " : "501 / cb ", e.cb);
    exps.push_back(e);
    if (!e.allowed) break;   // a 501 ends the connection (code-derived: error replies carry Connection: close)
    if (e.cb == -404) break; // so does the built-in 404 page
  }

  w.connect_client();
  if (!stream.empty()) { if (s.flag()) w.send_segment(stream.data(), stream.size()); else { size_t cut = 1 + s.below((uint32_t)stream.size()); w.send_segment(stream.data(), cut); if (cut < stream.size()) w.send_segment(stream.data() + cut, stream.size() - cut); } }
  std::vector<Delivered> D = w.delivered; std::vector<Response> RS = parse_responses(w.resp, w.peer_closed);
  w.close_world();
  w.check_no_leak("C30/leak", "C30/fd-leak");

  // ---- compare
  auto attribute = [&](const Exp &e, int got) -> const char * {   // got: callback id or -404
    if (e.target.compare(0, 2, "//") == 0) return K_DSLASH;
    bool nul = e.decoded.find('\0') != std::string::npos;
    if (nul && (got == route(c.nodes[e.node], e.decoded, true) || got == route(c.nodes[e.node_buggy], e.decoded, true))) return K_NUL;
    if (e.node != e.node_buggy && (got == route(c.nodes[e.node_buggy], e.decoded, false) || got == route(c.nodes[e.node_buggy], e.decoded, true))) return K_STAR;
    return "C30/wrong-callback";
  };
  size_t di = 0, ri = 0;
  for (size_t i = 0; i < exps.size(); i++) {
    const Exp &e = exps[i];
    int code = ri < RS.size() ? RS[ri].code : -1; ri++;
    if (!e.allowed) {
      CHECK(di >= D.size(), "C30/disallowed-method-delivered", "request %zu: method %s is outside the allowed mask 0x%x but callback %d ran", i, e.method.c_str(), c.mask, D[di].cb_id);
      CHECK(code == 501, "C30/disallowed-method-status", "request %zu: method %s is outside the allowed mask 0x%x: expected 501, got %d", i, e.method.c_str(), c.mask, code);
      saw_501 = true; continue;
    }
    int got = di < D.size() ? D[di].cb_id : -404;
    bool got_cb = di < D.size();
    if (e.cb == -404) {
      if (got_cb) {
        VERIF_FAIL(attribute(e, got), "request %zu (%s %s, host '%s'): nothing is registered for decoded path '%s' on node%d and it has no generic callback, expected 404, but callback %d ran", i, e.method.c_str(), esc(e.target).c_str(), esc(e.hostname).c_str(), esc(e.decoded).c_str(), e.node, got);
      }
      if (code != 404) {
        VERIF_FAIL("C30/not-found-status", "request %zu (%s %s): expected 404, got status %d", i, e.method.c_str(), esc(e.target).c_str(), code);
      }
      continue;
    }
    if (!got_cb || got != e.cb) {
      VERIF_FAIL(attribute(e, got), "request %zu (%s %s, host '%s'): decoded path '%s' on node%d must reach callback %d, but %s%d (status %d)", i, e.method.c_str(), esc(e.target).c_str(), esc(e.hostname).c_str(), esc(e.decoded).c_str(), e.node, e.cb,
                 got_cb ? "reached callback " : "no callback ran, got ", got_cb ? got : code, code);
    }
    CHECK(D[di].uri == e.target, "C30/target-changed", "callback saw target '%s', sent '%s'", esc(D[di].uri).c_str(), esc(e.target).c_str());
    CHECK(code == 200, "C30/status", "request %zu answered by callback %d but status is %d", i, got, code);
    di++;
    if (e.node != 0) saw_vhost = true;
    if (e.target.find('%') != std::string::npos) { bool reg = false; for (auto &p : c.nodes[e.node].paths) if (p.second == e.cb) reg = true; if (reg) saw_escape_match = true; }
    if (e.decoded.find('\0') != std::string::npos) saw_nul = true;
  }
  CHECK(di == D.size(), "C30/extra-delivery", "%zu request(s) delivered beyond the %zu expected", D.size() - di, di);
  if (saw_vhost) verif_class("vhost_selected"); if (saw_escape_match) verif_class("escaped_path_matched"); if (saw_501) verif_class("501_by_mask"); if (saw_nul) verif_class("nul_in_path");
  if (c.nodes.size() > 1) verif_class("has_vhosts"); if (exps.size() >= 2) verif_class("pipelined");
  verif_case_end(saw_vhost || saw_escape_match || saw_501, s.h);
  return 0;
}
