// C27 — every HTTP request completes exactly once, whatever the network does (fault enumeration).
//
// Leg A (client): a small deterministic exchange — 1-3 requests (GET /r<i>, some POST) queued on one evhttp_connection that
// reaches the harness' AF_UNIX listener (evhttp_connection_base_bufferevent_unix_new), retries 0-2, read/write timeout 5 s,
// the harness answering every complete request with a response that echoes the request number — is first run without a
// fault, then once for EVERY byte offset k of the bytes the server sent on the faulted connection, with one fault kind:
//   EOF at k, ECONNRESET at k (scripted read result), stall at k until the timeout fires, evhttp_cancel_request of the active
//   or of a queued request at k, evhttp_connection_free at k, teardown (connection + event_base_free) at k;
// optionally the first 1-3 connection attempts are refused, reconnects after the fault are refused or served, and a user
// action runs inside one completion callback (cancel the next request, make a new request, evhttp_connection_free,
// loopbreak + free connection and base).  Afterwards the peer closes everything and 10 x 30 virtual seconds pass.
// Position domain (per case): the byte offsets above, or EVERY EVENT-LOOP STEP of the exchange (step j = j-th poll of the loop since
// the first evhttp_make_request).  Steps also cover what no response byte covers: the connect in flight (first attempt, attempt
// started by the retry timer, reconnect for the next queued request), refused attempts, pending retry timers, the time after the
// exchange.  A prepare watcher counts the polls and, at step j, activates a user event; the fault (user call or harness-side network
// action) runs from that event's callback, i.e. where a user timer that happens to fire at that moment would run.
// Transport (per case): the AF_UNIX path above, or (1/3) a TCP loopback connection made with evhttp_connection_base_new(base, NULL,
// "127.0.0.1", port) to a harness listener on 127.0.0.1 - the hostname-connect path without a dns_base, where lookup, socket() and
// connect() run synchronously INSIDE the connect call and a failure there is handled inside the call.  That path has its own
// connect-time fault kinds (one per case, optional): the n-th socket() call of the library fails (EMFILE/ENFILE/ENOBUFS), the n-th
// connect() call fails at once (ENETUNREACH/EADDRNOTAVAIL/EACCES), the address family does not match the address
// (evhttp_connection_set_family(AF_INET6) with "127.0.0.1"; the user corrects it with evhttp_connection_set_family(AF_UNSPEC) in
// the first failure callback, or never); refused attempts are a closed port there (ECONNREFUSED).
// Both transports: after the exchange has settled, 0-2 further requests are made on the SAME connection object and served.
// Oracle: completion callback exactly once per request (0 iff cancelled, or still queued when the user freed the connection),
// error callback at most once and before the completion callback, a success carries the body of *its* request, without
// fault/cancel/free every request succeeds; allocation ledger back to baseline, fd table balanced, ASan clean.
//
// Leg B (server): evhttp on an AF_UNIX listener with evhttp_set_max_connections(1-3); 1-5 harness clients connect and send
// 1-2 requests; for one client the request stream is cut at EVERY byte offset and the client disconnects there (close, or
// close with unread data = reset); callbacks reply immediately or later (also after the disconnect).
// Oracle: every request handed to a callback is answered by the harness exactly once and the client reads at most one
// response per complete request it sent (never a response for an incomplete request unless it is an error status);
// evhttp_get_connection_count never exceeds the limit at a quiescent point and returns to 0; ledgers; ASan.
#include "http_client_common.hh"
#include "http_common.hh"
#include <algorithm>
#include <signal.h>
#include <poll.h>
#include <event2/watch.h>
extern "C" {
#include "bufferevent-internal.h"   // only read: is a deferred callback of the connection's bufferevent scheduled at teardown (picks the key of the leak clause)
}

namespace {
using hc::ReqRec;

// ------------------------------------------------------------------------------------------------ leg A
enum Fault { F_NONE, F_EOF, F_RST, F_STALL, F_CANCEL_ACTIVE, F_CANCEL_QUEUED, F_FREE_CONN, F_TEARDOWN, F__N };
enum CbAct { A_NONE, A_CANCEL_NEXT, A_NEW_REQ, A_FREE_CONN, A_BREAK_TEARDOWN, A__N };
const char *FN[] = {"none", "eof", "rst", "stall", "cancel-active", "cancel-queued", "free-conn", "teardown"};
const char *AN[] = {"none", "cancel-next", "new-request", "free-conn", "break+teardown"};

const char *K_UAF_CLEANUP = "asan:heap-use-after-free@evhttp_connection_cb_cleanup";
const char *K_STUCK = "C27/request-after-exhausted-retries-never-dispatched";
// connection + base freed (teardown) while the bufferevent's deferred error event of a refused (ECONNREFUSED) connect is still scheduled:
// the bufferevent is never finalized (same root cause as C10/bev-with-deferred-callback-leaks-at-base-free)
// evhttp_cancel_request of a still-queued request from the completion callback of another request, when that callback runs on the connect-failure
// path (evhttp_connection_cb_cleanup has moved all queued requests to a list on its stack, evhttp_cancel_request unlinks from evcon->requests
// instead): evcon->requests.tqh_last is left pointing into the stack frame; the next evhttp_make_request on the connection writes through it
// and the request is lost (never dispatched, never completed, leaked)
const char *K_CANCEL_CF = "C27/cancel-queued-in-connect-failure-callback-loses-later-request";
bool g_cancelled_in_cf_cb;   // the current run did that (picks the key of whatever breaks afterwards)
enum CFault { CF_NONE, CF_SOCKET, CF_CONNECT, CF_FAMILY, CF__N };
const char *CFN[] = {"none", "socket()-fails", "connect()-fails-at-once", "family-mismatch"};
const char *K_TEARDOWN_LEAK = "C27/leak-teardown-while-deferred-connect-error-pending";

struct Plan {
  int nreq = 1; bool post[3] = {false, false, false}; int retries = 0; int refuse_first = 0; bool refuse_after_fault = false;
  int resp_kind = 0;        // 0 Content-Length keep-alive, 1 chunked, 2 Connection: close + Content-Length, 3 close-delimited
  int fault = F_NONE; int fault_conn = 0; int act = A_NONE; int act_req = 0; int backend = 0; bool own = false;
  // position domain of the fault: false = byte offset k of the response stream of connection fault_conn (the fault fires between two
  // harness writes); true = event-loop step j of the whole exchange, counted from the first evhttp_make_request over connecting,
  // refused attempts, retry waits, the exchange itself and the 300 s afterwards: the fault runs from a user event's callback
  // that becomes active right before the j-th poll of the loop (i.e. as the first callback of step j)
  bool at_step = false;
  // how a connection attempt is refused: false = the listener's path is gone (connect() fails at once with ENOENT: synchronous
  // failure of the connect call), true = the socket file is still there but nobody listens (ECONNREFUSED: reported through the
  // bufferevent's deferred error event)
  bool refuse_econnrefused = false;
  // transport: false = AF_UNIX path (evhttp_connection_base_bufferevent_unix_new), true = TCP loopback by address string
  // (evhttp_connection_base_new(base, NULL, "127.0.0.1", port)): lookup + socket() + connect() happen synchronously inside the connect call
  bool tcp = false;
  // connect-time fault of the TCP transport: the (cf_nth+1)-th socket() / connect() call of the library fails with cf_errno (one-shot), or
  // the connection's address family is AF_INET6 while the address is "127.0.0.1" (every lookup fails until the user sets AF_UNSPEC:
  // in the first failure callback when cf_fix, never otherwise)
  int cfault = CF_NONE; int cf_nth = 0; int cf_errno = 0; bool cf_fix = true;
  int later = 0;            // further requests made on the same connection object after the exchange has settled
};

struct RunA {
  hc::World w; const Plan &p; long fault_at;   // byte offset on connection p.fault_conn at which the fault fires (-1 = no fault)
  int conn_no = -1;                 // index of the current accepted connection
  size_t answered = 0;              // complete requests answered on the current connection
  size_t sent_on_conn = 0;          // response bytes sent on the current connection
  size_t cur_off = 0;               // bytes of the current response already sent
  size_t sent_on_fault_conn = 0;
  bool fault_fired = false, stalled = false, teardown = false, listening = false;
  bool act_done = false, exhausted = false, family_fixed = false, cancelled_in_cf_cb = false;
  uint64_t sock0 = 0, conn0 = 0, cf_faults0 = 0;    // socket() / connect() calls seen before the first evhttp_make_request
  // event-loop steps: a prepare watcher counts the polls of the loop; at step fault_at it activates the user's event
  struct evwatch *prep = nullptr; struct event *user_ev = nullptr; long steps = 0;
  bool fired_outstanding = false, fired_connecting = false, fired_retry_pending = false, fired_retried_connecting = false;
  std::vector<bool> after_exh;      // per request: made after the retries had been used up
  std::vector<struct evhttp_request *> owned;   // requests taken over with evhttp_request_own(); freed by the harness outside the callback
  void free_owned() { for (auto *q : owned) evhttp_request_free(q); owned.clear(); }
  RunA(const Plan &pl, long k) : p(pl), fault_at(k) {}

  static void on_complete(hc::World *w, ReqRec *r, struct evhttp_request *req) {
    RunA *me = (RunA *)w->user; const Plan &p = me->p;
    if (req && r->code == 0 && p.retries > 0) me->exhausted = true;   // completion from the connect-failure path after the retries were used up
    // the user notices the failure and corrects the address family of the connection (plain setter; takes effect at the next connect attempt)
    if (p.cfault == CF_FAMILY && p.cf_fix && !me->family_fixed && !r->success && r->cb_calls == 1 && w->evcon) { me->family_fixed = true; TR("    in-callback: evhttp_connection_set_family(AF_UNSPEC)"); evhttp_connection_set_family(w->evcon, AF_UNSPEC); }
    if (p.own && req && r->cb_calls == 1) { evhttp_request_own(req); me->owned.push_back(req); }   // documented: take ownership in the callback, free explicitly later
    if (me->act_done || p.act == A_NONE || r->idx != p.act_req || r->cb_calls != 1) return;
    me->act_done = true;
    switch (p.act) {
      case A_CANCEL_NEXT: { size_t j = (size_t)r->idx + 1;
        if (j < w->recs.size()) {
          ReqRec *t = w->recs[j]; bool would = t->req && !t->cb_calls && !t->cancelled && !t->abandoned;
          if (would && req && r->code == 0) {   // connect-failure path: listed finding (the connection's request queue is corrupted)
            if (verif_known(K_CANCEL_CF)) { verif_known_skipped(K_CANCEL_CF); break; }
            me->cancelled_in_cf_cb = g_cancelled_in_cf_cb = true;
          }
          me->cancel(t, "in-callback");
        }
        break; }
      case A_NEW_REQ:
        if (w->evcon) me->make(false); break;
      case A_FREE_CONN:
        // listed finding: when the callback runs from the connect-failure path (request object with status 0), the library goes on
        // using the connection after the callback returned
        if (req && r->code == 0 && verif_known(K_UAF_CLEANUP)) { verif_known_skipped(K_UAF_CLEANUP); break; }
        me->free_conn("in-callback"); break;
      case A_BREAK_TEARDOWN: me->teardown = true; w->stop = true; event_base_loopbreak(w->base); break;
      default: break;
    }
  }
  static void prep_cb(struct evwatch *, const struct evwatch_prepare_cb_info *, void *arg) {
    RunA *me = (RunA *)arg; long j = me->steps++;
    if (me->p.at_step && me->p.fault != F_NONE && !me->fault_fired && !me->teardown && j == me->fault_at) event_active(me->user_ev, EV_TIMEOUT, 1);
  }
  static void user_cb(evutil_socket_t, short, void *arg) { RunA *me = (RunA *)arg; if (!me->fault_fired && !me->teardown) me->fire_fault(true); }
  void drop_hooks() { if (user_ev) { event_free(user_ev); user_ev = nullptr; } if (prep) { evwatch_free(prep); prep = nullptr; } }
  void cancel(ReqRec *r, const char *where) {
    if (!r->req || r->cb_calls || r->cancelled || r->abandoned) return;   // documented: not after its callback ran
    TR("    %s: evhttp_cancel_request(#%d)", where, r->idx);
    struct evhttp_request *q = r->req; r->req = nullptr; r->cancelled = true;
    evhttp_cancel_request(q);
  }
  void free_conn(const char *where) {
    if (!w.evcon) return;
    TR("    %s: evhttp_connection_free", where);
    for (ReqRec *r : w.recs) if (r->req && r->cb_calls == 0 && !r->cancelled) { r->abandoned = true; r->req = nullptr; }
    struct evhttp_connection *c = w.evcon; w.evcon = nullptr;
    evhttp_connection_free(c);
  }
  void make(bool post) {
    ReqRec *r = w.new_rec(); after_exh.push_back(exhausted);
    struct evhttp_request *req = evhttp_request_new(hc::World::done_cb, r);
    CHECK(req != nullptr, "harness/request-new", "evhttp_request_new failed");
    evhttp_request_set_error_cb(req, hc::World::err_cb);
    r->req = req;
    evhttp_add_header(evhttp_request_get_output_headers(req), "Host", "h");
    if (post) evbuffer_add(evhttp_request_get_output_buffer(req), "body", 4);
    char uri[16]; snprintf(uri, sizeof uri, "/r%d", r->idx);
    int rc = evhttp_make_request(w.evcon, req, post ? EVHTTP_REQ_POST : EVHTTP_REQ_GET, uri);
    if (rc != 0) { r->req = nullptr; r->abandoned = true; TR("    make_request(#%d) = %d (request freed by the library)", r->idx, rc); }   // documented: on failure the request has been freed
  }

  // complete requests at the front of w.req_in, answered ones skipped; returns the request number of the next unanswered complete one or -1
  int next_request() {
    size_t pos = 0; size_t seen = 0;
    for (;;) {
      size_t he = w.req_in.find("\r\n\r\n", pos); if (he == std::string::npos) return -1;
      std::string head = w.req_in.substr(pos, he - pos); size_t body = 0;
      size_t cl = head.find("Content-Length: "); if (cl != std::string::npos) body = (size_t)atoi(head.c_str() + cl + 16);
      if (w.req_in.size() < he + 4 + body) return -1;
      int no = -1; size_t r = head.find("/r"); if (r != std::string::npos) no = atoi(head.c_str() + r + 2);
      pos = he + 4 + body;
      if (seen++ == answered) return no;
    }
  }
  std::string response_for(int no) {
    std::string b = "r" + std::to_string(no);
    switch (p.resp_kind) {
      case 1: return "HTTP/1.1 200 OK\r\nTransfer-Encoding: chunked\r\n\r\n" + std::to_string(b.size()) + "\r\n" + b + "\r\n0\r\n\r\n";
      case 2: return "HTTP/1.1 200 OK\r\nConnection: close\r\nContent-Length: " + std::to_string(b.size()) + "\r\n\r\n" + b;
      case 3: return "HTTP/1.0 200 OK\r\n\r\n" + b;
      default: return "HTTP/1.1 200 OK\r\nContent-Length: " + std::to_string(b.size()) + "\r\n\r\n" + b;
    }
  }
  // (re-)queue the one-shot scripted failure of the library's (cf_nth+1)-th socket() / connect() call, unless it has struck already
  void arm_cfault() {
    if (p.cfault != CF_SOCKET && p.cfault != CF_CONNECT) return;
    // (evutil_socket_ retries a failed socket(type|SOCK_NONBLOCK|SOCK_CLOEXEC) once without the flags: a full descriptor table fails both calls)
    enum sim_sys k = p.cfault == CF_SOCKET ? SYS_SOCKET : SYS_CONNECT; uint64_t want = p.cfault == CF_SOCKET ? 2 : 1;
    uint64_t seen = sim_sys_calls[k] - (p.cfault == CF_SOCKET ? sock0 : conn0), struck = sim_sys_faults[k] - cf_faults0;
    if (struck >= want || (!struck && seen > (uint64_t)p.cf_nth)) return;
    if (!struck) for (uint64_t i = seen; i < (uint64_t)p.cf_nth; i++) sim_script(k, -1, ACT_PASS, 0);
    for (uint64_t i = struck; i < want; i++) sim_script(k, -1, ACT_FAIL, p.cf_errno);
  }
  void listen_now() { if (!listening) { relisten(); listening = true; } }
  void relisten() {
    if (p.tcp) { w.tcp_relisten(); return; }
    // (re)create the listener on the same path
    unlink(w.lpath.c_str());
    w.lfd = socket(AF_UNIX, SOCK_STREAM | SOCK_NONBLOCK | SOCK_CLOEXEC, 0);
    CHECK(w.lfd >= 0, "harness/socket", "socket: %s", strerror(errno));
    CHECK(bind(w.lfd, (struct sockaddr *)&w.laddr, w.lalen) == 0, "harness/bind", "bind: %s", strerror(errno));
    CHECK(listen(w.lfd, 16) == 0, "harness/listen", "listen: %s", strerror(errno));
  }
  void unlisten() {
    if (!listening) return;
    if (p.tcp) w.tcp_unlisten();   // closed port: ECONNREFUSED
    else if (p.refuse_econnrefused) { if (w.lfd >= 0) { close(w.lfd); w.lfd = -1; } } else w.stop_listening();
    listening = false;
  }

  // in_loop: called from the callback of the user's event inside event_base_loop (the harness must not re-enter the loop there)
  void fire_fault(bool in_loop = false) {
    fault_fired = true;
    if (in_loop) {
      TR("    fault %s at loop step %ld (connection %d)", FN[p.fault], fault_at, conn_no);
      // what the library was doing when the fault struck (generator-distribution counters only, nothing is decided from them)
      for (ReqRec *r : w.recs) if (r->req && !r->cb_calls && !r->cancelled && !r->abandoned) fired_outstanding = true;
      if (w.evcon && fired_outstanding) {
        if (w.evcon->state == EVCON_CONNECTING) { fired_connecting = true; if (w.evcon->retry_cnt) fired_retried_connecting = true; }
        else if (w.evcon->state == EVCON_DISCONNECTED && w.evcon->retry_cnt) fired_retry_pending = true;
      }
    } else TR("    fault %s at byte %ld of connection %d", FN[p.fault], fault_at, conn_no);
    switch (p.fault) {
      case F_EOF: if (p.refuse_after_fault) unlisten(); w.close_server(!in_loop); break;
      case F_RST: {
        if (p.refuse_after_fault) unlisten();
        int cfd = w.evcon ? (int)bufferevent_getfd(evhttp_connection_get_bufferevent(w.evcon)) : -1;
        if (cfd >= 0 && (!in_loop || w.sfd >= 0)) { sim_script(SYS_READV, cfd, ACT_FAIL, ECONNRESET); }
        w.close_server(!in_loop); if (!in_loop) { sim_script_clear(); arm_cfault(); } break; }
      case F_STALL: stalled = true; if (p.refuse_after_fault) unlisten(); break;
      case F_CANCEL_ACTIVE: for (ReqRec *r : w.recs) if (r->req && !r->cb_calls && !r->cancelled) { cancel(r, "step"); break; } if (!in_loop) w.pump(); break;
      case F_CANCEL_QUEUED: { int seen = 0; for (ReqRec *r : w.recs) if (r->req && !r->cb_calls && !r->cancelled) { if (seen++ == 1) { cancel(r, "step"); break; } } if (!in_loop) w.pump(); break; }
      case F_FREE_CONN: free_conn("step"); if (!in_loop) w.pump(); break;
      case F_TEARDOWN: teardown = true; if (in_loop) { w.stop = true; event_base_loopbreak(w.base); } break;
      default: break;
    }
  }

  // TCP only: loopback delivery is normally synchronous, but under load the kernel may defer it; before virtual time is advanced give
  // bytes / connects still in flight up to 1 ms of real time to arrive (ppoll is not under the virtual clock)
  bool in_flight() {
    struct pollfd pf[3]; int n = 0;
    if (w.lfd >= 0 && listening) { pf[n].fd = w.lfd; pf[n].events = POLLIN; pf[n].revents = 0; n++; }
    if (w.sfd >= 0) { pf[n].fd = w.sfd; pf[n].events = POLLIN; pf[n].revents = 0; n++; }
    int cfd = w.evcon ? (int)bufferevent_getfd(evhttp_connection_get_bufferevent(w.evcon)) : -1;
    if (cfd >= 0) { pf[n].fd = cfd; pf[n].events = POLLIN; pf[n].revents = 0; n++; }
    if (!n) return false;
    struct timespec ts = {0, 1000000};
    return ppoll(pf, (nfds_t)n, &ts, NULL) > 0 && ++flight_waits < 50;
  }
  int flight_waits = 0;
  // serve until nothing moves any more
  void serve() {
    for (int round = 0; round < 200 && !teardown; round++) {
      bool progress = false;
      w.pump(); if (teardown) break;
      free_owned();
      if (!listening && p.refuse_first >= 0 && (int)sim_sys_calls[SYS_CONNECT] >= p.refuse_first && !(fault_fired && p.refuse_after_fault)) { listen_now(); }
      if (listening && w.accept_one()) { if (p.tcp) { int one = 1; setsockopt(w.sfd, IPPROTO_TCP, TCP_NODELAY, &one, sizeof one); } conn_no++; answered = 0; sent_on_conn = 0; cur_off = 0; stalled = false; progress = true; TR("    accepted connection %d", conn_no); w.pump(); if (teardown) break; }
      if (w.sfd >= 0 && !stalled) {
        bool faulty = p.fault != F_NONE && !p.at_step && !fault_fired && conn_no == p.fault_conn && fault_at >= 0;
        int no = next_request();
        if (no >= 0) {
          std::string resp = response_for(no); size_t n = resp.size() - cur_off; bool fire = false;
          if (faulty) { long room = fault_at - (long)sent_on_conn; if (room < (long)n) { n = (size_t)room; fire = true; } else if (room == (long)n) fire = true; }
          if (n) { w.send_segment(resp.data() + cur_off, n); cur_off += n; sent_on_conn += n; if (conn_no == p.fault_conn) sent_on_fault_conn += n; }
          if (teardown) break;
          bool whole = cur_off == resp.size();
          if (whole) { answered++; cur_off = 0; }
          if (fire) fire_fault();
          if (teardown) break;
          if (whole && (p.resp_kind == 3 || p.resp_kind == 2) && w.sfd >= 0) w.close_server();   // the server closes behind a close-delimited / "Connection: close" response
          progress = true;
        }
      }
      if (stalled) { w.advance(6 * 1000000ll); if (w.client_closed || !w.evcon) { stalled = false; w.close_server(); progress = true; } else if (round > 3) { stalled = false; w.close_server(); } else progress = true; }
      if (!progress) {
        // a retry timer may be pending: let virtual time pass (2 s initial retry delay, doubled per attempt)
        bool pending = false; for (ReqRec *r : w.recs) if (!r->cb_calls && !r->cancelled && !r->abandoned) pending = true;
        if (!pending || round > 60) break;
        if (p.tcp && in_flight()) continue;
        w.advance(3 * 1000000ll);
      }
    }
  }

  void run() {
    w.backend = p.backend; w.prop = "C27"; w.user = this; w.on_complete = on_complete;
    sim_script_clear(); g_cancelled_in_cf_cb = false;
    for (int i = 0; i < SYS__N; i++) sim_sys_calls[i] = 0;
    CHECK(w.open_base(), "harness/base", "event_base_new failed");
    prep = evwatch_prepare_new(w.base, prep_cb, this); user_ev = event_new(w.base, -1, 0, user_cb, this);
    CHECK(prep != nullptr && user_ev != nullptr, "harness/step-hooks", "evwatch_prepare_new / event_new failed");
    if (p.tcp) w.open_tcp_listener(); else w.open_listener();
    listening = true;
    if (p.refuse_first > 0) unlisten();
    evhttp_connection_set_retries(w.evcon, p.retries);
    evhttp_connection_set_timeout(w.evcon, 5);
    if (p.cfault == CF_FAMILY) evhttp_connection_set_family(w.evcon, AF_INET6);
    sock0 = sim_sys_calls[SYS_SOCKET]; conn0 = sim_sys_calls[SYS_CONNECT]; cf_faults0 = sim_sys_faults[p.cfault == CF_SOCKET ? SYS_SOCKET : SYS_CONNECT];
    arm_cfault();
    for (int i = 0; i < p.nreq; i++) if (w.evcon && !teardown) make(p.post[i]);
    serve();
    free_owned();
    // the exchange has settled: the same connection object is used for further requests
    if (p.later && !teardown && w.evcon) {
      TR("    %d further request(s) on the same connection", p.later);
      for (int i = 0; i < p.later; i++) if (w.evcon && !teardown) make(false);
      serve();
      free_owned();
    }
    if (!teardown) {
      // the peer goes away for good; every timeout and retry gets its time
      w.close_server(); unlisten();
      for (int i = 0; i < 10; i++) w.advance(30 * 1000000ll);
      free_owned();
    }
  }
};

// true with probability num/den, false when the input bytes are exhausted
bool rare(Src &s, uint32_t num, uint32_t den) { return s.below(den) >= den - num; }

struct OutA { bool cancelled_in_cf_cb = false; std::vector<ReqRec> recs; std::vector<bool> after_exh; size_t sent_on_fault_conn = 0; bool fault_fired = false; int connects = 0;
  long steps = 0; bool fired_outstanding = false, fired_connecting = false, fired_retry_pending = false, fired_retried_connecting = false; };

OutA run_a(const Plan &p, long k) {
  OutA out;
  {
    RunA r(p, k);
    r.run();
    for (ReqRec *q : r.w.recs) out.recs.push_back(*q);
    out.after_exh = r.after_exh;
    out.sent_on_fault_conn = r.sent_on_fault_conn; out.fault_fired = r.fault_fired; out.connects = (int)sim_sys_calls[SYS_CONNECT];
    out.steps = r.steps; out.fired_outstanding = r.fired_outstanding; out.fired_connecting = r.fired_connecting;
    out.fired_retry_pending = r.fired_retry_pending; out.fired_retried_connecting = r.fired_retried_connecting;
    bool torn = r.teardown, deferred_pending = false;
    if (torn && r.w.evcon) { struct bufferevent *bev = evhttp_connection_get_bufferevent(r.w.evcon); if (bev) deferred_pending = (BEV_UPCAST(bev)->deferred.evcb_flags & (EVLIST_ACTIVE | EVLIST_ACTIVE_LATER)) != 0; }
    r.drop_hooks();      // the user's event and watcher go before the connection and the base
    r.w.close_world();   // marks still-queued requests as abandoned, frees the connection, then the base
    for (size_t i = 0; i < out.recs.size(); i++) { out.recs[i].abandoned = out.recs[i].abandoned || (out.recs[i].cb_calls == 0 && !out.recs[i].cancelled && torn); }
    out.cancelled_in_cf_cb = r.cancelled_in_cf_cb;
    r.w.check_no_leak(torn && deferred_pending && p.refuse_econnrefused ? K_TEARDOWN_LEAK : r.cancelled_in_cf_cb ? K_CANCEL_CF : "C27/leak", "C27/fd-leak");
  }
  return out;
}

std::string show_a(const OutA &o) { std::string s; for (auto &r : o.recs) { s += "\n      req" + std::to_string(r.idx) + ": cb=" + std::to_string(r.cb_calls) + " err=" + std::to_string(r.err_calls) + (r.success ? " OK body='" + esc(r.body, 20) + "'" : r.cb_calls ? " FAILED" : "") + (r.cancelled ? " cancelled" : "") + (r.abandoned ? " abandoned" : ""); } return s; }

void check_a(const Plan &p, long k, const OutA &o, bool faultless) {
  for (auto &r : o.recs) {
    if (r.cancelled) CHECK(r.cb_calls == 0, "C27/callback-after-cancel", "fault %s at %ld: request %d was cancelled before its callback ran, yet the completion callback ran %d time(s)%s", FN[p.fault], k, r.idx, r.cb_calls, show_a(o).c_str());
    else if (r.abandoned) CHECK(r.cb_calls <= 1, "C27/completed-twice", "fault %s at %ld: request %d completion callback ran %d times%s", FN[p.fault], k, r.idx, r.cb_calls, show_a(o).c_str());
    else {
      CHECK(r.cb_calls >= 1, (size_t)r.idx < o.after_exh.size() && o.after_exh[(size_t)r.idx] ? K_STUCK : o.cancelled_in_cf_cb ? K_CANCEL_CF : "C27/never-completed", "fault %s at %s %ld of connection %d (cb-action %s@%d, retries %d, refuse_first %d): request %d never had its completion callback run although the peer went away and 300 s passed%s", FN[p.fault], p.at_step ? "loop step" : "byte", k, p.fault_conn, AN[p.act], p.act_req, p.retries, p.refuse_first, r.idx, show_a(o).c_str());
      CHECK(r.cb_calls == 1, "C27/completed-twice", "fault %s at %s %ld of connection %d (cb-action %s@%d): request %d completion callback ran %d times%s", FN[p.fault], p.at_step ? "loop step" : "byte", k, p.fault_conn, AN[p.act], p.act_req, r.idx, r.cb_calls, show_a(o).c_str());
    }
    CHECK(r.err_calls <= 1, "C27/error-callback-twice", "fault %s at %ld: request %d error callback ran %d times%s", FN[p.fault], k, r.idx, r.err_calls, show_a(o).c_str());
    if (r.err_calls && r.cb_calls) CHECK(r.err_before_cb, "C27/error-callback-after-completion", "request %d: error callback ran after the completion callback (documented: before)", r.idx);
    // (a close-delimited response cut by the peer's close is a complete, shorter response: any prefix of the echo is legitimate there)
    if (r.success) CHECK((p.resp_kind == 3 ? ("r" + std::to_string(r.idx)).compare(0, r.body.size(), r.body) == 0 : r.body == "r" + std::to_string(r.idx)) && r.code == 200, "C27/response-of-another-request", "fault %s at %ld: request %d completed with status %d body '%s' (expected its own echo 'r%d')%s", FN[p.fault], k, r.idx, r.code, esc(r.body, 40).c_str(), r.idx, show_a(o).c_str());
    // (after a close-delimited HTTP/1.0 response the implementation sends the next queued request on the connection the peer has just
    //  closed and reports EOF for it; exactly-once still holds, so only the first request is required to succeed there)
    if (faultless && !r.cancelled && !r.abandoned && (p.resp_kind != 3 || r.idx == 0)) CHECK(r.success, "C27/faultless-exchange-failed", "no fault, no refusal: request %d did not succeed%s", r.idx, show_a(o).c_str());
  }
}

// true with probability num/den, false when the input bytes are exhausted
int leg_a(Src &s) {
  Plan p;
  p.nreq = 1 + s.below(3); for (int i = 0; i < 3; i++) p.post[i] = rare(s, 1, 4);
  p.retries = s.below(3); p.resp_kind = s.below(4);
  p.refuse_first = rare(s, 1, 4) ? 1 + s.below(3) : 0;
  p.fault = 1 + s.below(F__N - 1); p.fault_conn = rare(s, 1, 4) ? 1 : 0; p.refuse_after_fault = rare(s, 1, 3);
  p.act = rare(s, 1, 2) ? A_NONE : (int)s.below(A__N); p.act_req = s.below((uint32_t)p.nreq);
  p.own = rare(s, 1, 6);
  { uint32_t b = s.below(8); p.backend = b < 6 ? 0 : (int)b - 5; }
  p.at_step = rare(s, 2, 5);     // drawn last: inputs that end before these draws keep their meaning (byte offsets, ENOENT)
  p.refuse_econnrefused = rare(s, 1, 3);
  // new dimensions, drawn after everything else (all-zero = the AF_UNIX exchange as before)
  p.tcp = rare(s, 1, 3);
  p.cfault = p.tcp && rare(s, 3, 5) ? 1 + (int)s.below(CF__N - 1) : CF_NONE; p.cf_nth = (int)s.below(3);
  { uint32_t e = s.below(3); p.cf_errno = p.cfault == CF_SOCKET ? (e == 0 ? EMFILE : e == 1 ? ENFILE : ENOBUFS) : (e == 0 ? ENETUNREACH : e == 1 ? EADDRNOTAVAIL : EACCES); }
  p.cf_fix = !rare(s, 1, 3);
  p.later = rare(s, 1, 3) ? 1 + (int)s.below(2) : 0;
  if (p.tcp) p.refuse_econnrefused = true;   // a refused TCP attempt is a closed port
  // listed finding: teardown right after a refused connect was issued leaves the bufferevent's deferred error event behind; keep exploring
  // teardown with the other refusal kind
  if (p.refuse_econnrefused && (p.fault == F_TEARDOWN || p.act == A_BREAK_TEARDOWN) && verif_known(K_TEARDOWN_LEAK)) {
    verif_known_skipped(K_TEARDOWN_LEAK);
    if (p.tcp) { p.refuse_first = 0; p.refuse_after_fault = false; }   // TCP has no other refusal kind: keep exploring teardown without refusals
    else p.refuse_econnrefused = false;
  }
  TR("plan: nreq=%d retries=%d resp_kind=%d refuse_first=%d fault=%s on conn %d refuse_after=%d cb-action=%s@%d own=%d backend=%d position=%s refusal=%s", p.nreq, p.retries, p.resp_kind, p.refuse_first, FN[p.fault], p.fault_conn, p.refuse_after_fault, AN[p.act], p.act_req, p.own, p.backend, p.at_step ? "loop-step" : "byte", p.refuse_econnrefused ? "ECONNREFUSED" : "ENOENT");
  TR("      transport=%s connect-fault=%s nth=%d errno=%d fix-family=%d later-requests=%d", p.tcp ? "tcp-loopback" : "af-unix", CFN[p.cfault], p.cf_nth, p.cf_errno, p.cf_fix, p.later);
  // 1. the same exchange without the fault (measures how many bytes the faulted connection carries / how many loop steps the exchange takes)
  Plan base = p; base.fault = F_NONE;
  TR("run without fault");
  OutA o0 = run_a(base, -1);
  TR("  result:%s", show_a(o0).c_str());
  bool faultless = base.act == A_NONE && base.refuse_first <= base.retries && base.cfault == CF_NONE;
  check_a(base, -1, o0, faultless && base.refuse_first == 0);
  size_t L = p.at_step ? (size_t)(o0.steps > 0 ? o0.steps - 1 : 0) : o0.sent_on_fault_conn;
  // 2. the fault at every byte offset 0..L / at every loop step 0..L
  int inside = 0, failures = 0, outstanding = 0, connecting = 0, retry_pending = 0, retried_connecting = 0; uint64_t runs = 1;
  for (long k = 0; k <= (long)L; k++) {
    TR("run with fault %s at %s %ld/%zu of connection %d", FN[p.fault], p.at_step ? "loop step" : "byte", k, L, p.fault_conn);
    OutA o = run_a(p, k); runs++;
    TR("  result:%s", show_a(o).c_str());
    check_a(p, k, o, false);
    if (o.fault_fired && k > 0 && k < (long)L) inside++;
    for (auto &r : o.recs) if (r.cb_calls && !r.success) { failures++; break; }
    outstanding += o.fired_outstanding; connecting += o.fired_connecting; retry_pending += o.fired_retry_pending; retried_connecting += o.fired_retried_connecting;
  }
  verif_class(("fault:" + std::string(FN[p.fault])).c_str()); verif_class(("cb-action:" + std::string(AN[p.act])).c_str());
  if (p.refuse_first) verif_class("refused-connects"); if (p.retries) verif_class("retries>0"); if (p.fault_conn) verif_class("fault-on-reconnect");
  if (p.nreq > 1) verif_class("pipelined"); if (failures) verif_class("failure-reported");
  if (p.refuse_econnrefused && (p.refuse_first || p.refuse_after_fault)) verif_class("refusal:ECONNREFUSED");
  if (p.tcp) { verif_class("transport:tcp-loopback"); if (p.cfault) verif_class(("connect-fault:" + std::string(CFN[p.cfault])).c_str()); }
  if (p.later) verif_class("later-requests-on-same-connection");
  if (p.at_step) { verif_class("position:loop-step"); if (connecting) verif_class("step-fault-while-connecting"); if (retry_pending) verif_class("step-fault-while-retry-pending"); if (retried_connecting) verif_class("step-fault-while-retried-connect-in-flight"); }
  verif_class_n("faulted_runs", runs);
  // loop-step position: the fault struck at least once while a request was outstanding, and the exchange involved a connect in flight
  // or a pending retry at that moment, or a failure was reported
  if (p.at_step) return outstanding >= 1 && (connecting >= 1 || retry_pending >= 1 || failures >= 1);
  return inside >= 1 && failures >= 1;
}

// ------------------------------------------------------------------------------------------------ leg B
struct PlanB { int maxc = 1; int nclients = 1; int victim = 0; bool deferred = false; bool reset = false; int nreq = 1; bool post = false; int backend = 0; bool reply_before_close = false; };
struct SrvState { std::vector<struct evhttp_request *> pending; int callbacks = 0; bool deferred = false; int replies = 0; };
SrvState *g_srv;
void srv_cb(struct evhttp_request *req, void *) {
  g_srv->callbacks++;
  if (g_srv->deferred) { g_srv->pending.push_back(req); return; }
  g_srv->replies++; evhttp_send_reply(req, 200, "OK", NULL);
}
struct Client { int fd = -1; std::string in; bool closed = false; size_t complete_sent = 0; bool over_limit = false; };
void client_drain(Client &c) {
  if (c.fd < 0 || c.closed) return; char buf[2048];
  for (;;) { ssize_t n = recv(c.fd, buf, sizeof buf, MSG_DONTWAIT); if (n > 0) { c.in.append(buf, (size_t)n); continue; } if (n == 0) { c.closed = true; break; } if (errno == EINTR) continue; if (errno == EAGAIN || errno == EWOULDBLOCK) break; c.closed = true; break; }
}

void run_b(const PlanB &p, const std::string &stream, const std::vector<size_t> &ends, long k, int *limit_hits) {
  hw::World w; w.backend = p.backend;
  SrvState st; st.deferred = p.deferred; g_srv = &st;
  CHECK(w.open(), "harness/base", "world open failed");
  evhttp_set_gencb(w.http, srv_cb, NULL);
  evhttp_set_max_connections(w.http, p.maxc);
  std::vector<Client> cl((size_t)p.nclients);
  auto quiesce = [&]() {
    w.pump(); for (auto &c : cl) client_drain(c);
    int cnt = evhttp_get_connection_count(w.http);
    CHECK(cnt <= p.maxc, "C27/connection-limit-exceeded", "evhttp_get_connection_count=%d with evhttp_set_max_connections(%d) at a quiescent point (clients=%d, cut at %ld)", cnt, p.maxc, p.nclients, k);
    CHECK(cnt >= 0, "C27/connection-count-negative", "evhttp_get_connection_count=%d", cnt);
  };
  int open_served = 0;
  for (int i = 0; i < p.nclients; i++) {
    Client &c = cl[(size_t)i];
    c.fd = socket(AF_UNIX, SOCK_STREAM | SOCK_NONBLOCK | SOCK_CLOEXEC, 0);
    CHECK(c.fd >= 0, "harness/socket", "socket: %s", strerror(errno));
    CHECK(connect(c.fd, (struct sockaddr *)&w.addr, w.alen) == 0, "harness/connect", "connect: %s", strerror(errno));
    c.over_limit = open_served >= p.maxc; if (!c.over_limit) open_served++; else (*limit_hits)++;
    quiesce();
    if (c.over_limit) {   // documented limit: this connection must not be served; the implementation answers 503 and closes
      CHECK(c.in.find(" 200 ") == std::string::npos, "C27/over-limit-connection-served", "connection %d is over the limit of %d but got a 200", i, p.maxc);
    }
  }
  // every client sends its stream; the victim only the first k bytes, then disconnects
  for (int i = 0; i < p.nclients; i++) {
    Client &c = cl[(size_t)i]; if (c.closed) continue;
    size_t n = (i == p.victim && k >= 0) ? (size_t)k : stream.size();
    size_t off = 0; while (off < n) { ssize_t r = send(c.fd, stream.data() + off, n - off, MSG_NOSIGNAL | MSG_DONTWAIT); if (r > 0) { off += (size_t)r; continue; } if (r < 0 && errno == EINTR) continue; break; }
    for (size_t e : ends) if (e <= off) c.complete_sent++;
    if (i == p.victim && k >= 0) {
      if (p.reply_before_close) { quiesce(); }
      if (p.reset) { /* leave whatever the server wrote unread: close() with unread data resets the connection */ }
      else client_drain(c);
      close(c.fd); c.fd = -1;
    }
    quiesce();
  }
  // deferred replies (also for requests whose client is gone): the user answers each request exactly once
  for (int round = 0; round < 4; round++) {
    std::vector<struct evhttp_request *> todo; todo.swap(st.pending);
    for (auto *r : todo) { st.replies++; evhttp_send_reply(r, 200, "OK", NULL); }
    quiesce();
    if (st.pending.empty()) break;
  }
  // at most one response per complete request
  for (int i = 0; i < p.nclients; i++) {
    Client &c = cl[(size_t)i];
    std::vector<hw::Response> rs = hw::parse_responses(c.in, c.closed);
    size_t ok = 0, total = 0; for (auto &r : rs) { if (r.code == 200) ok++; if (r.code) total++; }
    if (c.over_limit) { CHECK(ok == 0, "C27/over-limit-connection-served", "connection %d is over the limit but was served %zu response(s)", i, ok); continue; }
    CHECK(ok <= c.complete_sent, "C27/more-responses-than-requests", "client %d sent %zu complete request(s) (stream cut at %ld) but read %zu 200-responses: %s", i, c.complete_sent, (i == p.victim ? k : -1), ok, esc(c.in, 300).c_str());
    CHECK(total <= c.complete_sent + 1, "C27/more-responses-than-requests", "client %d sent %zu complete request(s) but read %zu responses: %s", i, c.complete_sent, total, esc(c.in, 300).c_str());
  }
  CHECK(st.replies == st.callbacks, "harness/reply-count", "callbacks=%d replies=%d", st.callbacks, st.replies);
  for (auto &c : cl) if (c.fd >= 0) { close(c.fd); c.fd = -1; }
  w.pump();
  { int cnt = evhttp_get_connection_count(w.http); CHECK(cnt == 0, "C27/connection-count-not-zero", "all clients closed, loop quiescent, but evhttp_get_connection_count=%d", cnt); }
  w.close_world();
  w.check_no_leak("C27/leak", "C27/fd-leak");
  g_srv = nullptr;
}

int leg_b(Src &s) {
  PlanB p; p.maxc = 1 + s.below(3); p.nclients = 1 + s.below(5); p.victim = s.below((uint32_t)p.nclients); p.deferred = s.flag(); p.reset = rare(s, 1, 3);
  p.nreq = 1 + s.below(2); p.post = s.flag(); p.reply_before_close = rare(s, 1, 3);
  { uint32_t b = s.below(8); p.backend = b < 6 ? 0 : (int)b - 5; }
  std::string stream; std::vector<size_t> ends;
  for (int i = 0; i < p.nreq; i++) {
    if (p.post && i == 0) stream += "POST /p HTTP/1.1\r\nHost: h\r\nContent-Length: 5\r\n\r\nhello"; else stream += "GET /g HTTP/1.1\r\nHost: h\r\n\r\n";
    ends.push_back(stream.size());
  }
  TR("plan B: max_connections=%d clients=%d victim=%d deferred=%d reset=%d nreq=%d post=%d", p.maxc, p.nclients, p.victim, p.deferred, p.reset, p.nreq, p.post);
  int limit_hits = 0; uint64_t runs = 0;
  run_b(p, stream, ends, -1, &limit_hits); runs++;
  for (long k = 0; k <= (long)stream.size(); k++) { TR("victim disconnects after %ld bytes", k); run_b(p, stream, ends, k, &limit_hits); runs++; }
  verif_class("server-leg"); if (limit_hits) verif_class("limit-reached"); if (p.deferred) verif_class("deferred-replies"); if (p.reset) verif_class("client-reset");
  verif_class_n("faulted_runs", runs);
  return p.victim < p.maxc;   // the disconnecting client was one that is actually being served
}

char g_last_err[256];
void quiet_log(int sev, const char *msg) { if (sev >= EVENT_LOG_ERR) { snprintf(g_last_err, sizeof g_last_err, "%s", msg); } }
// event_errx() and friends: an internal consistency error of the library (it would exit(1) next)
void fatal_cb(int) {
  std::string fn(g_last_err); size_t c = fn.find(':'); if (c != std::string::npos) fn.resize(c);
  for (auto &ch : fn) if (!isalnum((unsigned char)ch) && ch != '_') ch = '_';
  std::string key = g_cancelled_in_cf_cb ? std::string(K_CANCEL_CF) : "C27/fatal-" + fn;
  VERIF_FAIL(key.c_str(), "libevent reported a fatal internal error: %s", g_last_err);
}
}  // namespace

extern "C" int LLVMFuzzerInitialize(int *, char ***) {
  sim_mem_install();
  signal(SIGPIPE, SIG_IGN);
  event_set_log_callback(quiet_log);
  event_set_fatal_callback(fatal_cb);
  return 0;
}

extern "C" int LLVMFuzzerTestOneInput(const uint8_t *data, size_t size) {
  sim_reset();
  verif_case_begin("C27");
  Src s(data, size);
  int nontrivial;
  if (s.below(4) == 3) nontrivial = leg_b(s); else nontrivial = leg_a(s);
  verif_case_end(nontrivial, s.h);
  return 0;
}
