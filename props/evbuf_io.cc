// C16 — evbuffer socket I/O moves exactly the bytes the system call reports.
// Buffer shapes are built with C12's interpreter (many chains, misaligned / empty trailing chains, read-only reference
// chains, optionally a sendfile-able file segment at the front), then evbuffer_read / evbuffer_write / evbuffer_write_atmost
// run on a real non-blocking AF_UNIX socketpair whose read/readv/write/writev/sendfile results are scripted through the
// link-time wrappers (data stays real).  For every I/O op a drawn subset of {EINTR, EAGAIN, ECONNRESET, EPIPE, "0 bytes
// possible"} is injected first (each must return -1 and leave every buffer unchanged), then a short-by-k or a full call.
// Oracle: return value == what the wrapped syscall returned; requested bytes <= howmuch (and <= max_read for reads);
// write: exactly the accepted prefix is drained and the peer receives exactly those bytes in order; read: exactly the
// returned bytes are appended and they are the next bytes the peer sent; validator + full compare after every call.
#include "evbuf_ops.hh"
#include <sys/socket.h>
#include <sys/ioctl.h>
#include <fcntl.h>
#include <unistd.h>
#include <errno.h>
#include <signal.h>
#include <sys/mman.h>
using namespace evb;

extern "C" int LLVMFuzzerInitialize(int *, char ***) { sim_mem_install(); ref_region_init(); signal(SIGPIPE, SIG_IGN); return 0; }

namespace {
struct IoLog { int fd; std::vector<sim_io_rec> recs; };
void io_hook(const struct sim_io_rec *r, void *arg) { IoLog *l = (IoLog *)arg; if (r->fd == l->fd) l->recs.push_back(*r); }
const int ERRS[] = {EINTR, EAGAIN, ECONNRESET, EPIPE};

struct Io {
  World &w; Exec &ex; Src &s; int fd, peer; IoLog log; std::string inflight; bool peer_shut = false;
  int n_short = 0, n_failed = 0, n_nontrivial = 0, n_sendfile = 0; int memfd = -1; std::string filedata; int n_fileseg = 0;
  Io(World &ww, Exec &e, Src &ss) : w(ww), ex(e), s(ss) {}

  std::string drain_peer() { std::string got; char tmp[65536]; for (;;) { ssize_t r = read(peer, tmp, sizeof tmp); if (r <= 0) break; got.append(tmp, (size_t)r); } return got; }
  bool is_w(int k) { return k == SYS_WRITE || k == SYS_WRITEV || k == SYS_SENDFILE; }
  bool is_r(int k) { return k == SYS_READ || k == SYS_READV; }

  void script_all(bool wr, enum sim_act a, long arg) {
    if (wr) { sim_script(SYS_WRITE, fd, a, arg); sim_script(SYS_WRITEV, fd, a, arg); sim_script(SYS_SENDFILE, fd, a, arg); }
    else { sim_script(SYS_READ, fd, a, arg); sim_script(SYS_READV, fd, a, arg); }
  }
  // one evbuffer_write(_atmost) call under the currently queued script; returns true if a syscall was issued
  void write_call(int bi, bool atmost, long howmuch, const char *what, bool expect_fail) {
    BufW &b = w.B[bi]; size_t L = b.m.len(); bool multi = ex.geo[bi].bounds.size() >= 1;
    bool front_is_sendfile = b.eb->first && (b.eb->first->flags & EVBUFFER_SENDFILE); size_t front_off = b.eb->first ? b.eb->first->off : 0;
    log.recs.clear();
    int rc = atmost ? evbuffer_write_atmost(b.eb, fd, howmuch) : evbuffer_write(b.eb, fd);
    sim_script_clear();
    size_t nsys = 0; sim_io_rec rec{}; for (auto &r : log.recs) if (is_w(r.kind)) { nsys++; rec = r; }
    TR("  %s(buf%d [%zu], howmuch %ld) [%s] -> %d   (%zu syscalls; last: requested %ld result %ld errno %d)", atmost ? "write_atmost" : "write", bi, L, howmuch, what, rc, nsys, rec.requested, rec.result, rec.err);
    size_t eff = (!atmost || howmuch < 0 || (size_t)howmuch > L) ? L : (size_t)howmuch;
    CHECK(nsys <= 1, "C16/write-multiple-syscalls", "one evbuffer_write call issued %zu write syscalls", nsys);
    if (b.m.fz_start) { CHECK(rc == -1 && nsys == 0, "C16/write-frozen", "write on a front-frozen buffer returned %d after %zu syscalls", rc, nsys); return; }
    if (nsys == 0) { CHECK(eff == 0, "C16/write-no-syscall", "write of %zu bytes made no system call (returned %d)", eff, rc);
      CHECK(rc == 0 || rc == -1, "C16/write-ret", "write of nothing returned %d", rc); return; }
    if (rec.kind == SYS_SENDFILE && (size_t)rec.requested > eff && (size_t)rec.requested <= front_off)
      VERIF_FAIL("C16/sendfile-ignores-howmuch", "evbuffer_write_atmost(howmuch %ld) asked sendfile() for the whole %ld-byte segment chain (returned %d)", howmuch, rec.requested, rc);
    CHECK((size_t)rec.requested <= eff && rec.requested > 0, "C16/write-asked-too-much", "write asked the kernel for %ld bytes, allowed %zu (howmuch %ld, buffered %zu)", rec.requested, eff, howmuch, L);
    if (rec.kind == SYS_SENDFILE) { n_sendfile++;
      // code-derived corner: a retriable sendfile error (EAGAIN/EINTR) is reported as 0, not -1
      if (rec.result == -1 && (rec.err == EAGAIN || rec.err == EINTR)) { CHECK(rc == 0 || rc == -1, "C16/write-ret", "sendfile EAGAIN -> %d", rc); n_failed++; if (multi) n_nontrivial++; return; } }
    CHECK(rc == (int)rec.result, "C16/write-ret", "evbuffer_write returned %d but the system call returned %ld (errno %d)", rc, rec.result, rec.err);
    if (expect_fail) CHECK(rc == -1, "C16/write-ret", "scripted failure but evbuffer_write returned %d", rc);
    if (rc < 0) { n_failed++; if (multi) n_nontrivial++; return; }
    if ((size_t)rc < (size_t)rec.requested || (size_t)rc < eff) { n_short++; if (multi) n_nontrivial++; }
    std::string want = m_take(bi, (size_t)rc), got = drain_peer();
    CHECK(got == want, "C16/peer-bytes", "peer received %zu bytes, the %d drained bytes differ from them (first diff or length)", got.size(), rc);
    if (front_is_sendfile && rec.kind != SYS_SENDFILE) VERIF_FAIL("C16/sendfile-not-used", "front chain is a sendfile chain but %d was called", rec.kind);
  }
  void op_write() {
    int bi = s.below(NB); bool atmost = s.flag(); SizeSpec hs = draw_size(s); uint8_t fm = s.byte(); uint32_t fin = s.below(3); SizeSpec ks = draw_size(s);
    BufW &b = w.B[bi]; long howmuch = -1;
    if (atmost) { howmuch = (hs.mode == 0 && hs.v == 0 && s.flag()) ? -1 : (long)resolve(hs, ex.geo[bi], b.m.len()); }
    if (atmost && howmuch >= 0 && b.eb->first && (b.eb->first->flags & EVBUFFER_SENDFILE) && (size_t)howmuch < b.eb->first->off && verif_known("C16/sendfile-ignores-howmuch")) {
      verif_known_skipped("C16/sendfile-ignores-howmuch"); howmuch = -1; }   // the sendfile path ignores howmuch: stay out of that sub-domain
    for (int i = 0; i < 5; i++) if (fm & (1u << i)) {
      if (i < 4) script_all(true, ACT_FAIL, ERRS[i]); else script_all(true, ACT_SHORT, 0);
      write_call(bi, atmost, howmuch, i < 4 ? strerror(ERRS[i]) : "would block", true);
      ex.post("write (failed)", 1u << bi);
    }
    if (fin == 0) return;
    size_t k = 0; if (fin == 2) { k = resolve(ks, ex.geo[bi], b.m.len()); if (k == 0) k = 1; script_all(true, ACT_SHORT, (long)k); }
    write_call(bi, atmost, howmuch, fin == 2 ? "short" : "pass", false);
    ex.post("write", 1u << bi);
  }

  // Put a file segment into a buffer.  The file is a memfd of FILE_LEN bytes; the segment always ends before the file's
  // EOF, offsets/lengths sit around page boundaries.  Buffers with EVBUFFER_FLAG_DRAINS_TO_FD take sendfile-capable
  // segments (-> sendfile chains); other buffers only take EVBUF_FS_DISABLE_SENDFILE segments (header: reading bytes
  // from a buffer holding a sendfile-capable segment is undefined), which are mmap'ed or (DISABLE_MMAP) read into memory.
  static const size_t FILE_LEN = 5 * 4096 + 321;
  void op_fileseg() {
    int bi = s.below(NB); uint32_t so = s.below(8), sl = s.below(8), fl = s.below(4), sub = s.below(4); BufW &b = w.B[bi];
    if (b.m.len() > 40000) return;
    if (memfd < 0) { memfd = memfd_create("c16", 0); if (memfd < 0) abort(); filedata = bytebuf::payload(99, FILE_LEN);
      if (pwrite(memfd, filedata.data(), FILE_LEN, 0) != (ssize_t)FILE_LEN) abort(); }
    static const size_t OFFS[] = {0, 1, 4095, 4096, 4097, 8191, 8192, 12288}, LENS[] = {1, 2, 100, 4095, 4096, 4097, 8192, 8193};
    size_t off = OFFS[so], len = LENS[sl]; if (off + len >= FILE_LEN) len = FILE_LEN - off - 7;
    unsigned flags = EVBUF_FS_CLOSE_ON_FREE | ((fl & 1) ? EVBUF_FS_DISABLE_MMAP : 0) | ((fl & 2) || !b.fd_only ? EVBUF_FS_DISABLE_SENDFILE : 0);
    int fd2 = dup(memfd); if (fd2 < 0) abort();
    struct evbuffer_file_segment *seg = evbuffer_file_segment_new(fd2, (ev_off_t)off, (ev_off_t)len, flags);
    CHECK(seg != nullptr, "C16/fileseg-new", "evbuffer_file_segment_new(off %zu, len %zu, flags %u) failed", off, len, flags);
    size_t o2 = sub == 0 ? 0 : sub == 1 ? 1 % len : len / 2; long l2 = (sub == 3) ? (long)((len - o2 + 1) / 2) : -1; size_t eff = l2 < 0 ? len - o2 : (size_t)l2;
    int rc = evbuffer_add_file_segment(b.eb, seg, (ev_off_t)o2, (ev_off_t)l2);
    bool sf = b.eb->last && (b.eb->last->flags & EVBUFFER_SENDFILE);
    TR("  add_file_segment(buf%d%s, file[%zu..+%zu] flags %u, sub-range %zu..%ld) -> %d%s", bi, b.fd_only ? " DRAINS_TO_FD" : "", off, len, flags, o2, l2, rc, sf ? " (sendfile chain)" : "");
    CHECK(rc == (b.m.fz_end ? -1 : 0), "C16/fileseg-add-ret", "evbuffer_add_file_segment returned %d, end frozen=%d", rc, b.m.fz_end);
    if (rc == 0) { evbuffer_file_segment_free(seg); m_append(bi, filedata.substr(off + o2, eff)); n_fileseg++; }   // a failed add has consumed the caller's reference
    ex.post("add_file_segment", 1u << bi);
  }

  void read_call(int bi, int howmuch, const char *what, bool expect_fail) {
    BufW &b = w.B[bi]; size_t L = b.m.len(); bool multi = ex.geo[bi].nchains >= 2; size_t maxread = evbuffer_get_max_read(b.eb);
    log.recs.clear();
    int rc = evbuffer_read(b.eb, fd, howmuch);
    sim_script_clear();
    size_t nsys = 0; sim_io_rec rec{}; for (auto &r : log.recs) if (is_r(r.kind)) { nsys++; rec = r; }
    TR("  read(buf%d [%zu], howmuch %d, max_read %zu, in flight %zu) [%s] -> %d   (%zu syscalls; last: %s requested %ld result %ld errno %d)", bi, L, howmuch, maxread, inflight.size(), what, rc, nsys,
       rec.kind == SYS_READV ? "readv" : "read", rec.requested, rec.result, rec.err);
    CHECK(nsys <= 1, "C16/read-multiple-syscalls", "one evbuffer_read call issued %zu read syscalls", nsys);
    if (b.m.fz_end) { CHECK(rc == -1 && nsys == 0, "C16/read-frozen", "read into an end-frozen buffer returned %d after %zu syscalls", rc, nsys); return; }
    CHECK(nsys == 1, "C16/read-no-syscall", "evbuffer_read made no system call (returned %d)", rc);
    if (howmuch >= 0) CHECK(rec.requested <= howmuch, "C16/read-asked-too-much", "evbuffer_read(howmuch %d) asked the kernel for %ld bytes", howmuch, rec.requested);
    CHECK((size_t)rec.requested <= maxread, "C16/read-asked-too-much", "evbuffer_read asked for %ld bytes, max_read is %zu", rec.requested, maxread);
    CHECK(rc == (int)rec.result, "C16/read-ret", "evbuffer_read returned %d but the system call returned %ld (errno %d)", rc, rec.result, rec.err);
    if (expect_fail && rec.requested > 0) CHECK(rc == -1, "C16/read-ret", "scripted failure but evbuffer_read returned %d", rc);
    if (rc < 0) { n_failed++; if (multi || rec.kind == SYS_READV) n_nontrivial++; return; }
    if (rc == 0) { CHECK(rec.requested == 0 || (peer_shut && inflight.empty()), "C16/read-ret", "read returned 0 without EOF"); return; }
    CHECK((size_t)rc <= inflight.size(), "C16/read-bytes", "read %d bytes but only %zu were sent", rc, inflight.size());
    if ((size_t)rc < inflight.size() && (size_t)rc < (size_t)rec.requested) { n_short++; if (multi || rec.kind == SYS_READV) n_nontrivial++; }
    m_append(bi, inflight.substr(0, (size_t)rc)); inflight.erase(0, (size_t)rc);
  }
  void op_read() {
    int bi = s.below(NB); SizeSpec hs = draw_size(s), fs = draw_size(s), ks = draw_size(s); uint8_t fm = s.byte(); uint32_t fin = s.below(3); uint32_t mr = s.below(8); uint32_t seed = s.below(251);
    BufW &b = w.B[bi];
    static const size_t MR[] = {0, 1, 100, 975, 4096, 5000, 20000, 70000};
    if (mr) { CHECK(evbuffer_set_max_read(b.eb, MR[mr]) == 0, "C16/set-max-read", "set_max_read failed"); TR("  set_max_read(buf%d, %zu)", bi, MR[mr]); }
    int howmuch = (hs.mode == 0 && hs.v == 0 && s.flag()) ? -1 : (int)resolve(hs, ex.geo[bi], b.m.len());
    // evbuffer_read(howmuch 0) with a completely full last chain trips EVUTIL_ASSERT(chain) in evbuffer_read_setup_vecs_
    if (howmuch == 0 && verif_known("assert:evbuffer_read_setup_vecs_:chain")) { verif_known_skipped("assert:evbuffer_read_setup_vecs_:chain"); howmuch = 1; }
    size_t feed = resolve(fs, ex.geo[bi], b.m.len());
    if (feed && !peer_shut && inflight.size() < 150000) { std::string pl = bytebuf::payload(seed, feed); ssize_t a = write(peer, pl.data(), pl.size()); if (a > 0) inflight.append(pl, 0, (size_t)a); TR("  (peer sends %zd bytes)", a); }
    for (int i = 0; i < 4; i++) if (fm & (1u << i)) {
      if (i < 3) script_all(false, ACT_FAIL, ERRS[i]); else script_all(false, ACT_SHORT, 0);
      read_call(bi, howmuch, i < 3 ? strerror(ERRS[i]) : "would block", true);
      ex.post("read (failed)", 1u << bi);
    }
    if (fin == 0) return;
    if (fin == 2) { size_t k = resolve(ks, ex.geo[bi], b.m.len()); if (k == 0) k = 1; script_all(false, ACT_SHORT, (long)k); }
    read_call(bi, howmuch, fin == 2 ? "short" : "pass", false);
    ex.post("read", 1u << bi);
  }
};
}  // namespace

extern "C" int LLVMFuzzerTestOneInput(const uint8_t *data, size_t size) {
  sim_reset();
  verif_case_begin("C16");
  Src s(data, size);
  int64_t live0 = sim_mem_live_blocks;
  {
    World w; world_init(w, "C16");
    unsigned fdmask = s.below(8);   // which buffers carry EVBUFFER_FLAG_DRAINS_TO_FD
    for (int i = 0; i < NB; i++) if (fdmask & (1u << i)) { evbuffer_set_flags(w.B[i].eb, EVBUFFER_FLAG_DRAINS_TO_FD); w.B[i].fd_only = true; }
    Exec ex(w); ex.init();
    int sv[2]; if (socketpair(AF_UNIX, SOCK_STREAM | SOCK_NONBLOCK, 0, sv) != 0) abort();
    Io io(w, ex, s); io.fd = sv[0]; io.peer = sv[1]; io.log.fd = sv[0]; sim_set_io_hook(io_hook, &io.log);
    for (int step = 0; step < 24; step++) {
      uint32_t k = s.below(8);
      if (k == 0) break;
      if (k <= 3) { std::vector<Op> ops = decode_ops(s, 4, MIX_SHAPE, sizeof MIX_SHAPE); for (const Op &o : ops) ex.run(o); }
      else if (k <= 5) io.op_write();
      else if (k == 6) { if (s.below(3) == 0) io.op_fileseg(); else io.op_read(); }
      else { if (s.below(4) == 0 && !io.peer_shut) { shutdown(io.peer, SHUT_WR); io.peer_shut = true; TR("  (peer shuts down its sending side)"); } else io.op_read(); }
    }
    ex.post("end");
    sim_set_io_hook(nullptr, nullptr);
    world_free(w); close(sv[0]); close(sv[1]); if (io.memfd >= 0) close(io.memfd);
    CHECK(w.refs_cleaned == w.refs_added, "C16/ref-cleanup-count", "%d references added, %d cleanup calls", w.refs_added, w.refs_cleaned);
    if (io.n_short) verif_class("short_result"); if (io.n_failed) verif_class("failed_result"); if (w.saw_multi_chain) verif_class("multi_chain"); if (io.n_sendfile) verif_class("sendfile"); if (io.n_fileseg) verif_class("file_segment");
    verif_class_n("io_faults", (uint64_t)(io.n_short + io.n_failed));
    CHECK(sim_mem_live_blocks == live0, "C16/leak", "library allocations outstanding: %lld", (long long)(sim_mem_live_blocks - live0));
    verif_case_end(io.n_nontrivial >= 1, s.h);
  }
  return 0;
}
