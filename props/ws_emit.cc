// C32 — WebSocket handshake accept value and outgoing frames (evws_send_text / evws_send_binary / evws_close).
// World: evhttp on an AF_UNIX abstract listener, one client connection per case (refs/ws_world.hh).
// Oracles: Sec-WebSocket-Accept == base64(SHA-1(key || GUID)) computed with OpenSSL; the bytes the server writes
// after the 101 response decode under refs/ws6455.hh as exactly one unmasked FIN frame per send call with the right
// opcode, minimal length form and identical payload, and evws_close(code) adds one close frame carrying `code`.
// Preconditions respected: keys contain no NUL/CR/LF and no leading/trailing SP/HT (those are not part of a field
// value); evws_send_text gets a NUL-terminated string; nothing is sent after evws_close; the session is used only
// while it is alive.
#include "verif.h"
#include "sim.h"
#include "ws_world.hh"
#include "ws6455.hh"
#include <openssl/evp.h>

using namespace wsw;

namespace {
const char GUID[] = "258EAFA5-E914-47DA-95CA-C5AB0DC85B11";
const char B64[] = "ABCDEFGHIJKLMNOPQRSTUVWXYZabcdefghijklmnopqrstuvwxyz0123456789+/";

std::string ref_accept(const std::string &key) {
  std::string in = key + GUID; unsigned char md[EVP_MAX_MD_SIZE]; unsigned int mdl = 0;
  EVP_Digest(in.data(), in.size(), md, &mdl, EVP_sha1(), nullptr);
  unsigned char out[64]; int n = EVP_EncodeBlock(out, md, (int)mdl);
  return std::string((char *)out, (size_t)n);
}

size_t draw_key_len(Src &s) {
  switch (s.below(10)) {
    case 0: return 24;                                  // what real clients send
    case 1: return 0;
    case 2: return 1 + s.below(64);
    case 3: { static const int T[] = {19, 20, 27, 28, 83, 84, 91, 92, 147, 148}; return (size_t)s.pick(T) + s.below(2) * 0; }  // key+GUID around SHA-1 padding boundaries (55/56/63/64 mod 64)
    case 4: return 18 + s.below(12);
    case 5: return 980 + s.below(16);                   // around the 1024-byte formatting buffer (987 | 988)
    case 6: return 65 + s.below(900);
    case 7: return 988 + s.below(3000);
    case 8: return 4000 + s.below(12000);
    default: return s.below(200);
  }
}
std::string draw_key(Src &s, size_t n) {
  std::string k; k.resize(n);
  int alpha = s.below(3); uint32_t seed = s.u32();
  std::string fill = filler(seed, n, true);
  for (size_t i = 0; i < n; i++) {
    uint8_t c = (uint8_t)fill[i];
    if (alpha == 0) c = (uint8_t)B64[c & 63];
    else if (alpha == 1) c = (uint8_t)(0x21 + c % 94);
    else { if (c == '\r' || c == '\n' || c == 0) c = 0x80; }
    k[i] = (char)c;
  }
  // a few fuzzer-controlled bytes at the front
  for (size_t i = 0; i < n && i < 4; i++) { uint8_t c = s.byte(); if (c && c != '\r' && c != '\n' && (alpha == 2 || (c > 0x20 && c < 0x7f))) k[i] = (char)c; }
  if (n) { if (k[0] == ' ' || k[0] == '\t') k[0] = 'x'; if (k[n - 1] == ' ' || k[n - 1] == '\t') k[n - 1] = 'x'; }
  if (alpha == 0 && n >= 2 && s.flag()) { k[n - 1] = '='; k[n - 2] = '='; }
  return k;
}

size_t draw_len(Src &s, bool allow_big) {
  switch (s.below(24)) {
    case 0: return 0; case 1: return 1; case 2: return s.below(125); case 3: return 124; case 4: return 125; case 5: return 126; case 6: return 127;
    case 7: return 128 + s.below(1000); case 8: return 65534; case 9: return 65535; case 10: return 65536; case 11: return 65537;
    case 12: return s.below(70000);
    case 13: if (allow_big && s.chance(1, 24)) { static const size_t T[] = {1048575, 1048576, 1048577}; return s.pick(T); } return 65535 + s.below(3);
    case 14: return 120 + s.below(10);
    default: return s.below(300);
  }
}
struct Op { bool text; std::string payload; };
}  // namespace

extern "C" int LLVMFuzzerInitialize(int *, char ***) { init_once(); return 0; }

extern "C" int LLVMFuzzerTestOneInput(const uint8_t *data, size_t size) {
  sim_reset();
  verif_case_begin("C32");
  Src s(data, size);
  World w; w.prop = "C32";
  if (!open_world(w, "wsemit")) VERIF_FAIL("harness/world-setup", "could not create base/http/listener/client: %s", strerror(errno));

  // ---- handshake
  size_t klen = draw_key_len(s);
  const bool k_trunc = verif_known("C32/accept-key-truncated");
  if (k_trunc && klen + sizeof GUID - 1 > 1023) { klen = 1023 - (sizeof GUID - 1) - s.below(8); verif_known_skipped("C32/accept-key-truncated"); }
  std::string key = draw_key(s, klen);
  static const char *KEYNAME[] = {"Sec-WebSocket-Key", "sec-websocket-key", "SEC-WEBSOCKET-KEY"};
  static const char *CONN[] = {"Upgrade", "keep-alive, Upgrade", "upgrade"};
  std::string req = "GET /chat HTTP/1.1\r\nHost: verif\r\nUpgrade: websocket\r\nConnection: ";
  req += CONN[s.below(3)]; req += "\r\n"; req += KEYNAME[s.below(3)]; req += ": "; req += key; req += "\r\nSec-WebSocket-Version: 13\r\n\r\n";
  TR("key len=%zu %s", key.size(), esc(key, 80).c_str());
  std::string head;
  bool ok = handshake(w, req, head);
  CHECK(ok, "harness/no-response", "no complete response head (rx %zu bytes, peer_gone=%d)", w.rx.size(), w.peer_gone);
  int st = status_of(head);
  TR("status %d sessions=%d", st, w.sessions);
  CHECK(st == 101 && w.sessions == 1 && w.evws, "harness/handshake-rejected", "valid upgrade request answered %d (sessions=%d)", st, w.sessions);
  bool found; std::string accept = header_of(head, "Sec-WebSocket-Accept", &found);
  std::string want = ref_accept(key);
  const char *akey = key.size() + sizeof GUID - 1 > 1023 ? "C32/accept-key-truncated" : "C32/accept-mismatch";
  CHECK(found, akey, "101 response without Sec-WebSocket-Accept (key len %zu)", key.size());
  CHECK(accept == want, akey, "key len %zu: Sec-WebSocket-Accept=%s, base64(SHA-1(key+GUID))=%s", key.size(), esc(accept).c_str(), want.c_str());
  verif_class(key.size() == 0 ? "key_empty" : key.size() <= 64 ? "key_le64" : key.size() <= 987 ? "key_le987" : "key_ge988");

  // ---- outgoing frames
  bool allow_big = verif_param("big", 1) != 0;
  std::vector<Op> ops; size_t budget = 1300000; size_t expect_rx = 0;
  int nops = s.below(6);
  for (int i = 0; i < nops; i++) {
    Op o; o.text = s.flag();
    size_t n = draw_len(s, allow_big); if (n > budget) n = s.below(200); budget -= n;
    if (n <= 16) { o.payload = s.bytes(n); if (o.text) for (auto &c : o.payload) if (!c) c = 'a'; }
    else o.payload = filler(s.u32(), n, o.text);
    TR("%s len=%zu", o.text ? "send_text" : "send_binary", n);
    if (o.text) evws_send_text(w.evws, o.payload.c_str()); else evws_send_binary(w.evws, o.payload.data(), o.payload.size());
    expect_rx += n + 16; w.rx.reserve(expect_rx);
    ops.push_back(o);
    if (s.chance(1, 3)) { TR("pump"); pump(w); CHECK(w.evws && w.close_cb_calls == 0 && !w.peer_gone, "C32/closed-without-close", "session closed while only sending (close_cb=%d peer_gone=%d)", w.close_cb_calls, w.peer_gone); }
  }
  int closing = s.below(3); uint16_t code = 0;
  if (closing) {
    static const uint16_t CODES[] = {1000, 1001, 1002, 1009, 0, 1, 255, 256, 32767, 32768, 65535, 3000, 4999};
    code = closing == 1 ? s.pick(CODES) : s.u16();
    TR("evws_close(%u)", code);
    evws_close(w.evws, code);
  }
  pump(w);

  // ---- decode what arrived
  const uint8_t *b = (const uint8_t *)w.rx.data(); size_t n = w.rx.size(), off = 0;
  for (size_t i = 0; i < ops.size() + (closing ? 1 : 0); i++) {
    ws6455::Frame f; ws6455::ParseStatus ps = ws6455::parse_frame(b, n, off, ~0ull >> 1, f);
    CHECK(ps == ws6455::P_OK, "C32/frame-missing", "frame %zu of %zu: %s at offset %zu of %zu received bytes: %s", i, ops.size() + (closing ? 1 : 0),
          ps == ws6455::P_MORE ? "incomplete" : "oversize", off, n, hexs(b + off, n - off, 16).c_str());
    bool is_close = i == ops.size();
    int want_op = is_close ? ws6455::OP_CLOSE : ops[i].text ? ws6455::OP_TEXT : ws6455::OP_BIN;
    CHECK(f.fin && f.rsv == 0 && !f.masked && f.opcode == want_op, "C32/frame-header", "frame %zu: fin=%d rsv=%d masked=%d opcode=%d, expected one unmasked FIN frame with opcode %d", i, f.fin, f.rsv, f.masked, f.opcode, want_op);
    CHECK(f.minimal, "C32/length-not-minimal", "frame %zu: payload length %llu sent in the %d-bit form", i, (unsigned long long)f.len, f.lenbits);
    if (is_close) {
      CHECK(f.payload.size() == 2 && (uint8_t)f.payload[0] == (code >> 8) && (uint8_t)f.payload[1] == (code & 0xff), "C32/close-code",
            "evws_close(%u) produced close payload %s", code, hexs(f.payload.data(), f.payload.size()).c_str());
    } else {
      CHECK(f.payload == ops[i].payload, "C32/payload-mismatch", "frame %zu: payload differs (got %zu bytes %s, sent %zu bytes %s)", i, f.payload.size(),
            hexs(f.payload.data(), f.payload.size(), 16).c_str(), ops[i].payload.size(), hexs(ops[i].payload.data(), ops[i].payload.size(), 16).c_str());
      verif_class(f.lenbits == 7 ? "len7" : f.lenbits == 16 ? "len16" : "len64");
      if (ops[i].payload.size() >= 1048575) verif_class("len_1MiB");
    }
    off = f.end;
  }
  CHECK(off == n, "C32/trailing-bytes", "%zu unexpected bytes after the expected frames: %s", n - off, hexs(b + off, n - off, 16).c_str());
  if (closing) {
    CHECK(w.close_cb_calls == 1 && w.evws == nullptr && w.peer_gone, "C32/close-not-closed", "after evws_close + flush: close_cb=%d session=%p peer_gone=%d", w.close_cb_calls, (void *)w.evws, w.peer_gone);
    verif_class("closed");
  } else {
    CHECK(w.close_cb_calls == 0 && w.evws && !w.peer_gone, "C32/closed-without-close", "session closed without evws_close (close_cb=%d peer_gone=%d)", w.close_cb_calls, w.peer_gone);
  }
  CHECK(w.got.empty(), "C32/phantom-message", "on_msg called although the client sent no frame");
  close_world(w, "C32/leak", "C32/fd-leak");
  CHECK(w.close_cb_calls == 1, "C32/close-cb-count", "close callback ran %d times over the session's life", w.close_cb_calls);
  verif_case_end(!ops.empty() || closing, s.h);
  return 0;
}
