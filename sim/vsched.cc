// Deterministic cooperative thread scheduler for C09 (see sim/vsched.h).
// Real pthreads, but exactly one holds the run token at any time; at every switch point (lock acquire / release,
// condition wait / signal, explicit yield, the loop's blocking wait) the next runnable thread is drawn from the
// case's choice source.  Installed through the PUBLIC evthread_set_lock_callbacks / _condition_callbacks /
// _id_callback API, so the library runs its real locking code paths.
#include "vsched.h"
#include "verif.h"
#include <pthread.h>
#include <semaphore.h>
#include <string.h>
#include <vector>
#include <event2/thread.h>

namespace {
enum St { RUNNABLE, BLOCKED_LOCK, BLOCKED_COND, BLOCKED_JOIN, BLOCKED_PARK, DONE };
struct Th { int id; pthread_t pt; sem_t sem; St st; void *waiting_on; void (*fn)(void *); void *arg; };
struct SLock { unsigned type; int owner; int count; int id; };
struct SCond { int id; };

std::vector<Th *> g_th;
int g_cur = 0;                 // index of the token holder
Src *g_src;
bool g_active;                 // a case is running under the scheduler
uint64_t g_switches, g_preempt_after_unlock;
int g_lock_ids, g_cond_ids;
int g_last_unlocked_lock = -1; int g_last_unlocker = -1;
__thread int t_self = 0;

void switch_to(int next) {
  int self = t_self;
  if (next == self) return;
  g_switches++;
  g_cur = next;
  sem_post(&g_th[next]->sem);
  if (g_th[self]->st != DONE) { while (sem_wait(&g_th[self]->sem) != 0) {} }
}
// choose the next thread to run among the runnable ones (self included if runnable)
int pick() {
  int cand[16], n = 0;
  for (size_t i = 0; i < g_th.size(); i++) if (g_th[i]->st == RUNNABLE) cand[n++] = (int)i;
  if (n == 0) return -1;
  if (n == 1) return cand[0];
  // bias: stay on the current thread half of the time so scripts make progress, otherwise uniform
  int self = t_self; bool self_ok = g_th[self]->st == RUNNABLE;
  if (!g_src || g_src->exhausted()) {   // no choices left: fair round-robin so that nobody starves
    for (int k = 1; k <= (int)g_th.size(); k++) { int c = (self + k) % (int)g_th.size(); if (g_th[c]->st == RUNNABLE) return c; }
  }
  uint32_t r = g_src ? g_src->below(2 * n) : 0;
  if (r >= (uint32_t)n) return self_ok ? self : cand[r - n];
  return cand[r];
}
void reschedule(const char *why) {
  int nx = pick();
  if (nx < 0) {
    // nobody can run: every thread is blocked -> deadlock (or lost wake-up of a condition)
    std::string d; for (auto *t : g_th) { char b[64]; snprintf(b, sizeof b, " T%d:%s", t->id, t->st == BLOCKED_LOCK ? "lock" : t->st == BLOCKED_COND ? "cond" : t->st == BLOCKED_JOIN ? "join" : t->st == DONE ? "done" : "run"); d += b; }
    verif_fail("C09/deadlock", "no runnable thread at %s:%s", why, d.c_str());
  }
  switch_to(nx);
}

void *l_alloc(unsigned type) { return new SLock{type, -1, 0, ++g_lock_ids}; }
void l_free(void *p, unsigned) { SLock *l = (SLock *)p; if (g_active && l->count) verif_fail("C09/free-held-lock", "lock #%d freed while held by T%d", l->id, l->owner); delete l; }
int l_lock(unsigned mode, void *p) {
  SLock *l = (SLock *)p;
  if (!g_active) { l->owner = 0; l->count++; return 0; }
  int self = t_self;
  if (l->owner != self && g_last_unlocked_lock == l->id && g_last_unlocker != self) g_preempt_after_unlock++;
  reschedule("lock");                       // switch point before the acquire
  for (;;) {
    if (l->owner == -1) { l->owner = self; l->count = 1; return 0; }
    if (l->owner == self) {
      if (l->type & EVTHREAD_LOCKTYPE_RECURSIVE) { l->count++; return 0; }
      if (mode & EVTHREAD_TRY) return 1;
      verif_fail("C09/self-deadlock", "T%d re-acquires non-recursive lock #%d", self, l->id);
    }
    if (mode & EVTHREAD_TRY) return 1;
    g_th[self]->st = BLOCKED_LOCK; g_th[self]->waiting_on = l;
    reschedule("lock-blocked");
  }
}
int l_unlock(unsigned, void *p) {
  SLock *l = (SLock *)p;
  if (!g_active) { if (l->count > 0 && --l->count == 0) l->owner = -1; return 0; }
  int self = t_self;
  if (l->owner != self || l->count <= 0) verif_fail("C09/unlock-not-owner", "T%d unlocks lock #%d owned by T%d (count %d)", self, l->id, l->owner, l->count);
  if (--l->count == 0) {
    l->owner = -1; g_last_unlocked_lock = l->id; g_last_unlocker = self;
    for (auto *t : g_th) if (t->st == BLOCKED_LOCK && t->waiting_on == l) { t->st = RUNNABLE; t->waiting_on = nullptr; }
    reschedule("unlock");                   // switch point after the release
  }
  return 0;
}
void *c_alloc(unsigned) { return new SCond{++g_cond_ids}; }
void c_free(void *p) { delete (SCond *)p; }
int c_signal(void *p, int broadcast) {
  if (!g_active) return 0;
  for (auto *t : g_th) if (t->st == BLOCKED_COND && t->waiting_on == p) { t->st = RUNNABLE; t->waiting_on = nullptr; if (!broadcast) break; }
  return 0;
}
int c_wait(void *p, void *lk, const struct timeval *) {
  SLock *l = (SLock *)lk; int self = t_self;
  if (!g_active) return 0;
  if (l->owner != self) verif_fail("C09/cond-wait-without-lock", "T%d waits on cond without holding lock #%d", self, l->id);
  int saved = l->count; l->count = 0; l->owner = -1;
  for (auto *t : g_th) if (t->st == BLOCKED_LOCK && t->waiting_on == l) { t->st = RUNNABLE; t->waiting_on = nullptr; }
  g_th[self]->st = BLOCKED_COND; g_th[self]->waiting_on = p;
  reschedule("cond-wait");
  // signalled: re-acquire
  for (;;) {
    if (l->owner == -1) { l->owner = self; l->count = saved; break; }
    g_th[self]->st = BLOCKED_LOCK; g_th[self]->waiting_on = l;
    reschedule("cond-relock");
  }
  return 0;
}
unsigned long id_cb(void) { return (unsigned long)t_self + 1; }

// Threads are pooled across cases (creating pthreads under ASan is expensive): a pooled thread sleeps on its
// semaphore, runs the function assigned by sched_spawn, reports DONE, hands the token on and sleeps again.
void *trampoline(void *a) {
  Th *t = (Th *)a; t_self = t->id;
  for (;;) {
    while (sem_wait(&t->sem) != 0) {}
    t->fn(t->arg);
    t->st = DONE;
    for (auto *o : g_th) if (o->st == BLOCKED_JOIN) o->st = RUNNABLE;
    int nx = pick();
    if (nx < 0) verif_fail("C09/deadlock", "thread T%d finished and nobody is runnable", t->id);
    g_switches++; g_cur = nx; sem_post(&g_th[nx]->sem);
  }
  return nullptr;
}
std::vector<Th *> g_pool;   // index i holds the thread with id i+1
}  // namespace

extern "C" void sched_install(void) {
  static int done; if (done) return; done = 1;
  struct evthread_lock_callbacks cbs = {EVTHREAD_LOCK_API_VERSION, EVTHREAD_LOCKTYPE_RECURSIVE, l_alloc, l_free, l_lock, l_unlock};
  struct evthread_condition_callbacks cc = {EVTHREAD_CONDITION_API_VERSION, c_alloc, c_free, c_signal, c_wait};
  evthread_set_lock_callbacks(&cbs); evthread_set_condition_callbacks(&cc); evthread_set_id_callback(id_cb);
}
void sched_begin(Src *s) {
  if (g_th.empty()) { Th *m = new Th{0, pthread_self(), {}, RUNNABLE, nullptr, nullptr, nullptr}; sem_init(&m->sem, 0, 0); g_th.push_back(m); }
  g_th.resize(1); g_th[0]->st = RUNNABLE; g_th[0]->waiting_on = nullptr;
  t_self = 0; g_cur = 0; g_src = s; g_active = true; g_switches = g_preempt_after_unlock = 0; g_last_unlocked_lock = -1; g_last_unlocker = -1;
}
int sched_spawn(void (*fn)(void *), void *arg) {
  int id = (int)g_th.size();
  if ((int)g_pool.size() < id) {
    Th *t = new Th{id, {}, {}, DONE, nullptr, nullptr, nullptr}; sem_init(&t->sem, 0, 0); g_pool.push_back(t);
    pthread_attr_t at; pthread_attr_init(&at); pthread_attr_setstacksize(&at, 1 << 20);
    if (pthread_create(&t->pt, &at, trampoline, t)) abort();
    pthread_attr_destroy(&at);
  }
  Th *t = g_pool[id - 1]; t->fn = fn; t->arg = arg; t->st = RUNNABLE; t->waiting_on = nullptr; g_th.push_back(t);
  return id;
}
void sched_yield_point(void) { if (g_active) reschedule("yield"); }
int sched_self(void) { return t_self; }
int sched_runnable_others(void) { int n = 0; for (auto *t : g_th) if (t->id != t_self && t->st == RUNNABLE) n++; return n; }
int sched_unfinished_others(void) { int n = 0; for (auto *t : g_th) if (t->id != t_self && t->st != DONE) n++; return n; }
// Let the other threads run until none of them is runnable (the caller stays runnable and gets the token back).
void sched_run_others(void) {
  int self = t_self, guard = 0;
  while (sched_runnable_others() > 0) {
    if (++guard > 100000) verif_fail("harness/sched-spin", "other threads never block or finish");
    // pick one of the others explicitly
    int cand[16], n = 0; for (auto *t : g_th) if (t->id != self && t->st == RUNNABLE) cand[n++] = t->id;
    int nx = cand[g_src ? g_src->below(n) : 0];
    switch_to(nx);
  }
}
void sched_park(void) { g_th[t_self]->st = BLOCKED_PARK; reschedule("park"); }
void sched_unpark(int id) { if (g_th[id]->st == BLOCKED_PARK) g_th[id]->st = RUNNABLE; }
int sched_cond_waiters(void) { int n = 0; for (auto *t : g_th) if (t->st == BLOCKED_COND) n++; return n; }
int sched_thread_done(int id) { return g_th[id]->st == DONE; }
void sched_wait_thread(int id) {
  int self = t_self;
  while (g_th[id]->st != DONE) {
    if (sched_runnable_others() == 0) {
      std::string d; for (auto *t : g_th) { char b[64]; snprintf(b, sizeof b, " T%d:%d", t->id, (int)t->st); d += b; }
      verif_fail("C09/deadlock", "waiting for T%d but every other thread is blocked:%s", id, d.c_str());
    }
    g_th[self]->st = BLOCKED_JOIN; int nx = pick(); switch_to(nx); g_th[self]->st = RUNNABLE;
  }
}
void sched_join_all(void) {
  int self = t_self;
  while (sched_unfinished_others() > 0) {
    if (sched_runnable_others() == 0) {
      std::string d; for (auto *t : g_th) { char b[64]; snprintf(b, sizeof b, " T%d:%d", t->id, (int)t->st); d += b; }
      verif_fail("C09/deadlock", "join: other threads are blocked forever:%s", d.c_str());
    }
    g_th[self]->st = BLOCKED_JOIN;
    int nx = pick(); g_th[self]->st = BLOCKED_JOIN; switch_to(nx);
    g_th[self]->st = RUNNABLE;
  }
}
void sched_end(void) { g_active = false; g_src = nullptr; }
uint64_t sched_switches(void) { return g_switches; }
uint64_t sched_preemptions_after_unlock(void) { return g_preempt_after_unlock; }
