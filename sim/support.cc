// Statistics, sampling, failure reporting and the "fresh random input" mutator shared by all targets.
#include "verif.h"
#include "sim.h"
#include <unistd.h>
#include <time.h>
#include <map>
#include <string>
#include <unordered_set>
#include <vector>

extern "C" size_t LLVMFuzzerMutate(uint8_t *Data, size_t Size, size_t MaxSize);

int verif_trace_on;
static const char *g_prop = "?";
static uint64_t g_evals, g_nontrivial_cases, g_known_skipped;
static std::map<std::string, uint64_t> g_classes;
static std::unordered_set<uint64_t> g_hashes;
static const size_t HASH_CAP = 1u << 18;
static bool g_hash_capped;
static std::vector<std::string> g_samples;
static const size_t SAMPLE_CAP = 4;
static std::string g_trace;
static bool g_force_trace, g_inited;
static const char *g_stats_path;
static std::vector<std::string> g_known;
static std::map<std::string, uint64_t> g_known_hits;

static void init_once() {
  if (g_inited) return; g_inited = true;
  g_force_trace = getenv("VERIF_TRACE") != NULL;
  g_stats_path = getenv("VERIF_STATS");
  if (const char *k = getenv("VERIF_KNOWN")) { std::string s(k), cur; for (char c : s) { if (c == ',') { if (!cur.empty()) g_known.push_back(cur); cur.clear(); } else cur.push_back(c); } if (!cur.empty()) g_known.push_back(cur); }
  // NB: do not install a sanitizer death callback here: libFuzzer uses it to save the crashing input
  atexit(verif_stats_flush);
}

extern "C" long verif_param(const char *name, long dflt) {
  std::string k = std::string("VERIF_P_") + name; const char *v = getenv(k.c_str()); return v ? atol(v) : dflt; }

extern "C" void verif_case_begin(const char *property) {
  init_once(); g_prop = property; g_evals++;
  verif_trace_on = g_force_trace || g_samples.size() < SAMPLE_CAP;
  g_trace.clear();
}
extern "C" void verif_class(const char *name) { g_classes[name]++; }
extern "C" void verif_class_n(const char *name, uint64_t n) { g_classes[name] += n; }
extern "C" void verif_tracef(const char *fmt, ...) {
  char buf[1024]; va_list ap; va_start(ap, fmt); vsnprintf(buf, sizeof buf, fmt, ap); va_end(ap);
  if (g_trace.size() < 64 * 1024) { g_trace += buf; g_trace += '\n'; }
  if (g_force_trace) { fputs(buf, stderr); fputc('\n', stderr); }
}
extern "C" void verif_case_end(int nontrivial, uint64_t h) {
  if (nontrivial) {
    g_nontrivial_cases++;
    bool isnew = false;
    if (g_hashes.size() < HASH_CAP) isnew = g_hashes.insert(h).second; else g_hash_capped = true;
    if (isnew && verif_trace_on && g_samples.size() < SAMPLE_CAP && !g_trace.empty()) {
      std::string s = g_trace; if (s.size() > 3000) { s.resize(3000); s += "\n...(truncated)"; }
      g_samples.push_back(s);
    }
  }
  // periodic flush (a sanitizer death skips atexit): at most every ~2 s of CPU time, checked every 256 cases
  if ((g_evals & 0xff) == 0) { static clock_t last; clock_t now = clock(); if (now - last > 2 * CLOCKS_PER_SEC || g_evals <= 0x100) { last = now; verif_stats_flush(); } }
}
extern "C" int verif_known(const char *key) { init_once(); for (auto &k : g_known) if (k == key) return 1; return 0; }
extern "C" void verif_known_skipped(const char *key) { g_known_skipped++; g_known_hits[key]++; }

static void json_str(FILE *f, const std::string &s) {
  fputc('"', f);
  for (unsigned char c : s) { if (c == '"' || c == '\\') { fputc('\\', f); fputc(c, f); } else if (c == '\n') fputs("\\n", f); else if (c < 0x20 || c >= 0x7f) fprintf(f, "\\u%04x", c); else fputc(c, f); }
  fputc('"', f);
}
extern "C" void verif_stats_flush(void) {
  if (!g_stats_path) return;
  std::string tmp = std::string(g_stats_path) + ".tmp";
  FILE *f = fopen(tmp.c_str(), "w"); if (!f) return;
  fprintf(f, "{\"property\":"); json_str(f, g_prop);
  fprintf(f, ",\"evaluations\":%llu,\"nontrivial_cases\":%llu,\"hash_capped\":%s,\"known_skipped\":%llu,\"classes\":{",
          (unsigned long long)g_evals, (unsigned long long)g_nontrivial_cases, g_hash_capped ? "true" : "false", (unsigned long long)g_known_skipped);
  bool first = true; for (auto &kv : g_classes) { if (!first) fputc(',', f); first = false; json_str(f, kv.first); fprintf(f, ":%llu", (unsigned long long)kv.second); }
  fprintf(f, "},\"known_hits\":{");
  first = true; for (auto &kv : g_known_hits) { if (!first) fputc(',', f); first = false; json_str(f, kv.first); fprintf(f, ":%llu", (unsigned long long)kv.second); }
  fprintf(f, "},\"samples\":[");
  first = true; for (auto &s : g_samples) { if (!first) fputc(',', f); first = false; json_str(f, s); }
  fprintf(f, "],\"hashes\":[");
  first = true; for (uint64_t h : g_hashes) { if (!first) fputc(',', f); first = false; fprintf(f, "\"%llx\"", (unsigned long long)h); }
  fprintf(f, "]}\n"); fclose(f);
  rename(tmp.c_str(), g_stats_path);
}

extern "C" void verif_fail(const char *key, const char *fmt, ...) {
  char buf[2048]; va_list ap; va_start(ap, fmt); vsnprintf(buf, sizeof buf, fmt, ap); va_end(ap);
  fprintf(stderr, "\nVERIF-FAIL property=%s key=%s msg=%s\n", g_prop, key, buf);
  if (!g_force_trace && !g_trace.empty()) { fprintf(stderr, "---- decoded case ----\n%s----\n", g_trace.c_str()); }
  fflush(stderr);
  verif_stats_flush();
  abort();
}

// With probability VERIF_FRESH % (default 15) replace the input by fresh random bytes drawn from libFuzzer's
// own PRNG seed, so that coverage-guided search is mixed with blind generation at full max_len from the start.
extern "C" size_t LLVMFuzzerCustomMutator(uint8_t *Data, size_t Size, size_t MaxSize, unsigned int Seed) {
  static int fresh_pct = -1;
  if (fresh_pct < 0) { const char *e = getenv("VERIF_FRESH"); fresh_pct = e ? atoi(e) : 15; }
  uint64_t s = Seed * 0x9e3779b97f4a7c15ull + 0x1234567;
  auto next = [&]() { s ^= s << 13; s ^= s >> 7; s ^= s << 17; return s; };
  if ((int)(next() % 100) < fresh_pct && MaxSize > 0) {
    size_t len = 1 + next() % MaxSize;
    // several byte distributions: uniform, small values, sparse
    int mode = next() % 4;
    for (size_t i = 0; i < len; i++) {
      uint64_t r = next();
      switch (mode) { case 0: Data[i] = (uint8_t)r; break; case 1: Data[i] = (uint8_t)(r % 16); break;
        case 2: Data[i] = (r & 0x300) ? (uint8_t)(r % 8) : (uint8_t)r; break; default: Data[i] = (r & 0x100) ? (uint8_t)r : (uint8_t)(r % 32); break; }
    }
    return len;
  }
  return LLVMFuzzerMutate(Data, Size, MaxSize);
}
