// Deterministic cooperative scheduler (C09 leg A). See sched.cc.
#pragma once
#include <stdint.h>
struct Src;
extern "C" void sched_install(void);          // once per process, before any libevent object exists
void sched_begin(Src *s);                     // per case; the calling thread becomes T0 and holds the token
int  sched_spawn(void (*fn)(void *), void *arg);   // new thread, runnable, runs when scheduled
void sched_yield_point(void);                 // explicit switch point
int  sched_self(void);
int  sched_runnable_others(void);
int  sched_unfinished_others(void);
int  sched_thread_done(int id);
int  sched_cond_waiters(void);                // threads currently blocked in a condition wait
void sched_run_others(void);                  // run the other threads until none of them is runnable
void sched_wait_thread(int id);               // block (cooperatively) until thread id has finished
void sched_park(void);                        // block the caller until another thread calls sched_unpark(id)
void sched_unpark(int id);
void sched_join_all(void);                    // wait for every other thread, then pthread_join them
void sched_end(void);
uint64_t sched_switches(void);
uint64_t sched_preemptions_after_unlock(void);
