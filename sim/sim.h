// Simulation layer: virtual clock, owned blocking waits, scripted syscall results,
// counting allocator, lock monitor, fd ledger.  All link-time (-Wl,--wrap) or public API;
// everything is pass-through until a target arms it, and sim_reset() disarms it again.
#pragma once
#include <stdint.h>
#include <stddef.h>
#include <sys/types.h>
#include <sys/select.h>
#include <poll.h>

#ifdef __cplusplus
extern "C" {
#endif

// ---- virtual clock -------------------------------------------------------------------
void    sim_clock_enable(int64_t start_us);   // monotonic starts here (never 0 s); realtime = +SIM_WALL_OFFSET
void    sim_clock_disable(void);
int     sim_clock_enabled(void);
int64_t sim_now_us(void);
void    sim_advance_us(int64_t d);            // d >= 0
#define SIM_WALL_OFFSET_US (1700000000ll * 1000000ll)
#define SIM_START_US       (1000ll * 1000000ll)

// ---- owned waits ---------------------------------------------------------------------
enum { SIM_WAIT_EPOLL = 1, SIM_WAIT_POLL = 2, SIM_WAIT_SELECT = 3 };
struct sim_wait_info {
  int kind;
  int epfd;                    // epoll
  struct pollfd *pfds; int npfds;           // poll (as passed in)
  int nfds; fd_set *rset, *wset;           // select: sets as passed IN (copied before the real call)
  int64_t timeout_us;          // requested; -1 = infinite
  int nready;                  // result of the real zero-timeout call
  uint64_t ordinal;            // wait number since sim_reset
};
// Returns how far to advance the virtual clock (µs, >= 0).  Default (NULL hook):
// nready>0 -> 0; finite timeout -> exactly the timeout; infinite -> 0 and sim_idle_count++.
typedef int64_t (*sim_wait_hook_t)(const struct sim_wait_info *wi, void *arg);
void sim_set_wait_hook(sim_wait_hook_t h, void *arg);
extern uint64_t sim_wait_count;   // waits since sim_reset
extern uint64_t sim_idle_count;   // infinite waits with nothing ready since sim_reset
void sim_set_wait_limit(uint64_t max_waits); // exceed -> verif_fail("harness/wait-spin") (default 200000)

// ---- scripted syscall results ---------------------------------------------------------
enum sim_sys { SYS_READ, SYS_READV, SYS_WRITE, SYS_WRITEV, SYS_SENDFILE, SYS_ACCEPT, SYS_EPOLL_CTL,
  SYS_RECVFROM, SYS_SENDTO, SYS_SEND, SYS_RECV, SYS_SOCKET, SYS_EVENTFD, SYS_PIPE, SYS_CONNECT,
  SYS_SIGACTION, SYS_SIGNALFD, SYS__N };
#define SIM_NOT_ON_DEL 0x10000   /* or-ed into the errno of a SYS_EPOLL_CTL failure: do not apply it to EPOLL_CTL_DEL */
enum sim_act { ACT_PASS = 0, ACT_SHORT = 1 /* arg = max bytes */, ACT_FAIL = 2 /* arg = errno */ };
// Queue an action for the next not-yet-scripted call of `kind` (on `fd`, or any fd when fd<0).
void sim_script(enum sim_sys kind, int fd, enum sim_act act, long arg);
// Sticky: every call of `kind` on fd (or any) gets this action until sim_reset (after the queue is empty).
void sim_script_sticky(enum sim_sys kind, int fd, enum sim_act act, long arg);
void sim_script_clear(void);
extern uint64_t sim_sys_calls[SYS__N];      // calls seen since sim_reset
extern uint64_t sim_sys_faults[SYS__N];     // scripted non-pass actions actually consumed
struct sim_io_rec { int kind; int fd; long requested; long result; int err; };
typedef void (*sim_io_hook_t)(const struct sim_io_rec *r, void *arg);
void sim_set_io_hook(sim_io_hook_t h, void *arg);   // called after every wrapped I/O call

// ---- counting allocator (event_set_mem_functions) ------------------------------------
void     sim_mem_install(void);               // once, before the library allocates anything
void     sim_mem_free(void *p);               // free memory the library hands to the caller (evbuffer_readln, evhttp_uridecode, ...) once sim_mem_install() is active
extern int64_t  sim_mem_live_blocks, sim_mem_live_bytes;
extern uint64_t sim_mem_calls;                // allocation calls (malloc/realloc-grow/calloc) since sim_reset
void     sim_mem_fail_at(uint64_t nth, int sticky);  // fail the nth allocation call from now (1-based); 0 = off
extern uint64_t sim_mem_failed;               // failures injected since sim_reset

// ---- lock monitor (evthread_set_lock_callbacks; single-threaded targets) --------------
void sim_lockmon_install(void);               // once per process
// number of locks currently held; fills *desc with a short description of one of them
int  sim_lockmon_held(const char **desc);
extern uint64_t sim_lock_ops;                 // lock+unlock operations since sim_reset
// first misuse seen (unlock-not-held, relock of non-recursive, free-held, cond-wait-would-block), or NULL
const char *sim_lockmon_error(void);
void sim_lockmon_fail_try(int n);             // the next n try-lock attempts fail as if another thread held the lock (0 = off)
extern uint64_t sim_try_failed;

// ---- fd ledger -----------------------------------------------------------------------
int  sim_fd_count(void);                      // open fds in 0..1023
// bitmap snapshot / compare; returns first fd that differs (-1 if equal)
struct sim_fdset { unsigned char open[128]; };
void sim_fd_snapshot(struct sim_fdset *s);
int  sim_fd_diff(const struct sim_fdset *a, const struct sim_fdset *b);

// ---- per-case reset ------------------------------------------------------------------
void sim_reset(void);    // disarm everything: clock off, hooks off, scripts cleared, counters zeroed

#ifdef __cplusplus
}
#endif
