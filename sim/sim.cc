// See sim.h.  Link with -Wl,--wrap=<each wrapped function>.
#include "sim.h"
#include "verif.h"
#include <errno.h>
#include <fcntl.h>
#include <signal.h>
#include <string.h>
#include <time.h>
#include <unistd.h>
#include <sys/epoll.h>
#include <sys/eventfd.h>
#include <sys/sendfile.h>
#include <sys/signalfd.h>
#include <sys/socket.h>
#include <sys/time.h>
#include <sys/uio.h>
#include <pthread.h>
#include <deque>
#include <map>
#include <event2/event.h>
#include <event2/thread.h>

extern "C" {
int __real_clock_gettime(clockid_t, struct timespec *);
int __real_gettimeofday(struct timeval *, void *);
int __real_epoll_pwait2(int, struct epoll_event *, int, const struct timespec *, const sigset_t *);
int __real_epoll_wait(int, struct epoll_event *, int, int);
int __real_poll(struct pollfd *, nfds_t, int);
int __real_select(int, fd_set *, fd_set *, fd_set *, struct timeval *);
ssize_t __real_read(int, void *, size_t);
ssize_t __real_readv(int, const struct iovec *, int);
ssize_t __real_write(int, const void *, size_t);
ssize_t __real_writev(int, const struct iovec *, int);
ssize_t __real_sendfile(int, int, off_t *, size_t);
int __real_accept4(int, struct sockaddr *, socklen_t *, int);
int __real_accept(int, struct sockaddr *, socklen_t *);
int __real_epoll_ctl(int, int, int, struct epoll_event *);
ssize_t __real_recvfrom(int, void *, size_t, int, struct sockaddr *, socklen_t *);
ssize_t __real_sendto(int, const void *, size_t, int, const struct sockaddr *, socklen_t);
ssize_t __real_send(int, const void *, size_t, int);
ssize_t __real_recv(int, void *, size_t, int);
int __real_socket(int, int, int);
int __real_eventfd(unsigned int, int);
int __real_pipe2(int[2], int);
int __real_pipe(int[2]);
int __real_connect(int, const struct sockaddr *, socklen_t);
int __real_sigaction(int, const struct sigaction *, struct sigaction *);
int __real_signalfd(int, const sigset_t *, int);
}

// =============================================================== clock
static int g_clock_on;
static int64_t g_now_us;

extern "C" void sim_clock_enable(int64_t start_us) { g_clock_on = 1; g_now_us = start_us; }
extern "C" void sim_clock_disable(void) { g_clock_on = 0; }
extern "C" int sim_clock_enabled(void) { return g_clock_on; }
extern "C" int64_t sim_now_us(void) { return g_now_us; }
extern "C" void sim_advance_us(int64_t d) { if (d > 0) g_now_us += d; }

extern "C" int __wrap_clock_gettime(clockid_t id, struct timespec *ts) {
  if (!g_clock_on) return __real_clock_gettime(id, ts);
  int64_t t = g_now_us;
  if (id == CLOCK_REALTIME || id == CLOCK_REALTIME_COARSE) t += SIM_WALL_OFFSET_US;
  ts->tv_sec = t / 1000000; ts->tv_nsec = (t % 1000000) * 1000;
  return 0;
}
extern "C" int __wrap_gettimeofday(struct timeval *tv, void *tz) {
  if (!g_clock_on) return __real_gettimeofday(tv, tz);
  int64_t t = g_now_us + SIM_WALL_OFFSET_US;
  tv->tv_sec = t / 1000000; tv->tv_usec = t % 1000000;
  return 0;
}

// =============================================================== waits
static sim_wait_hook_t g_wait_hook; static void *g_wait_arg;
uint64_t sim_wait_count, sim_idle_count;
static uint64_t g_wait_limit = 200000;
extern "C" void sim_set_wait_hook(sim_wait_hook_t h, void *arg) { g_wait_hook = h; g_wait_arg = arg; }
extern "C" void sim_set_wait_limit(uint64_t m) { g_wait_limit = m; }

static void after_wait(struct sim_wait_info *wi) {
  wi->ordinal = ++sim_wait_count;
  if (sim_wait_count > g_wait_limit)
    verif_fail("harness/wait-spin", "more than %llu waits in one case (last wait: kind=%d timeout_us=%lld nready=%d)", (unsigned long long)g_wait_limit, wi->kind, (long long)wi->timeout_us, wi->nready);
  int64_t adv;
  if (g_wait_hook) adv = g_wait_hook(wi, g_wait_arg);
  else if (wi->nready > 0) adv = 0;
  else if (wi->timeout_us >= 0) adv = wi->timeout_us;
  else { adv = 0; sim_idle_count++; }
  if (adv > 0) g_now_us += adv;
}

extern "C" int __wrap_epoll_pwait2(int epfd, struct epoll_event *ev, int max, const struct timespec *to, const sigset_t *ss) {
  if (!g_clock_on) return __real_epoll_pwait2(epfd, ev, max, to, ss);
  struct timespec zero = {0, 0};
  int r = __real_epoll_pwait2(epfd, ev, max, &zero, ss);
  int e = errno;
  struct sim_wait_info wi; memset(&wi, 0, sizeof wi);
  wi.kind = SIM_WAIT_EPOLL; wi.epfd = epfd; wi.nready = r;
  wi.timeout_us = to ? (int64_t)to->tv_sec * 1000000 + (to->tv_nsec + 999) / 1000 : -1;
  after_wait(&wi);
  errno = e; return r;
}
extern "C" int __wrap_epoll_wait(int epfd, struct epoll_event *ev, int max, int timeout_ms) {
  if (!g_clock_on) return __real_epoll_wait(epfd, ev, max, timeout_ms);
  int r = __real_epoll_wait(epfd, ev, max, 0);
  int e = errno;
  struct sim_wait_info wi; memset(&wi, 0, sizeof wi);
  wi.kind = SIM_WAIT_EPOLL; wi.epfd = epfd; wi.nready = r;
  wi.timeout_us = timeout_ms < 0 ? -1 : (int64_t)timeout_ms * 1000;
  after_wait(&wi);
  errno = e; return r;
}
extern "C" int __wrap_poll(struct pollfd *fds, nfds_t n, int timeout_ms) {
  if (!g_clock_on) return __real_poll(fds, n, timeout_ms);
  int r = __real_poll(fds, n, 0);
  int e = errno;
  struct sim_wait_info wi; memset(&wi, 0, sizeof wi);
  wi.kind = SIM_WAIT_POLL; wi.pfds = fds; wi.npfds = (int)n; wi.nready = r;
  wi.timeout_us = timeout_ms < 0 ? -1 : (int64_t)timeout_ms * 1000;
  after_wait(&wi);
  errno = e; return r;
}
extern "C" int __wrap_select(int nfds, fd_set *rs, fd_set *ws, fd_set *es, struct timeval *tv) {
  if (!g_clock_on) return __real_select(nfds, rs, ws, es, tv);
  // the fd_sets libevent passes may be larger than sizeof(fd_set); copy only what nfds covers
  size_t bytes = (size_t)((nfds + 63) / 64) * 8;
  static unsigned char rin[8192], win[8192];
  if (bytes > sizeof rin) bytes = sizeof rin;
  if (rs) memcpy(rin, rs, bytes); else memset(rin, 0, bytes);
  if (ws) memcpy(win, ws, bytes); else memset(win, 0, bytes);
  struct timeval zero = {0, 0};
  int r = __real_select(nfds, rs, ws, es, &zero);
  int e = errno;
  struct sim_wait_info wi; memset(&wi, 0, sizeof wi);
  wi.kind = SIM_WAIT_SELECT; wi.nfds = nfds; wi.rset = (fd_set *)rin; wi.wset = (fd_set *)win; wi.nready = r;
  wi.timeout_us = tv ? (int64_t)tv->tv_sec * 1000000 + tv->tv_usec : -1;
  after_wait(&wi);
  errno = e; return r;
}

// =============================================================== scripted syscalls
struct Act { int fd; int act; long arg; };
static std::deque<Act> g_q[SYS__N];
static Act g_sticky[SYS__N]; static bool g_has_sticky[SYS__N];
uint64_t sim_sys_calls[SYS__N], sim_sys_faults[SYS__N];
static sim_io_hook_t g_io_hook; static void *g_io_arg;
static bool g_any_script;

extern "C" void sim_script(enum sim_sys k, int fd, enum sim_act a, long arg) { g_q[k].push_back(Act{fd, a, arg}); g_any_script = true; }
extern "C" void sim_script_sticky(enum sim_sys k, int fd, enum sim_act a, long arg) { g_sticky[k] = Act{fd, a, arg}; g_has_sticky[k] = true; g_any_script = true; }
extern "C" void sim_script_clear(void) { for (int k = 0; k < SYS__N; k++) { g_q[k].clear(); g_has_sticky[k] = false; } g_any_script = false; }
extern "C" void sim_set_io_hook(sim_io_hook_t h, void *arg) { g_io_hook = h; g_io_arg = arg; }

static Act next_act(int kind, int fd) {
  sim_sys_calls[kind]++;
  Act pass{-1, ACT_PASS, 0};
  if (!g_any_script) return pass;
  auto &q = g_q[kind];
  for (auto it = q.begin(); it != q.end(); ++it) {
    if (it->fd < 0 || it->fd == fd) { Act a = *it; q.erase(it); if (a.act != ACT_PASS) sim_sys_faults[kind]++; return a; }
  }
  if (g_has_sticky[kind] && (g_sticky[kind].fd < 0 || g_sticky[kind].fd == fd)) { if (g_sticky[kind].act != ACT_PASS) sim_sys_faults[kind]++; return g_sticky[kind]; }
  return pass;
}
static inline void io_done(int kind, int fd, long req, long res) {
  if (g_io_hook) { int e = errno; struct sim_io_rec r{kind, fd, req, res, res < 0 ? e : 0}; g_io_hook(&r, g_io_arg); errno = e; }
}
static size_t iov_total(const struct iovec *v, int n) { size_t t = 0; for (int i = 0; i < n; i++) t += v[i].iov_len; return t; }
// truncated copy of an iovec array to at most `lim` bytes
static int iov_trunc(const struct iovec *v, int n, size_t lim, struct iovec *out) {
  int m = 0; for (int i = 0; i < n && lim > 0; i++) { out[m] = v[i]; if (out[m].iov_len > lim) out[m].iov_len = lim; lim -= out[m].iov_len; m++; }
  return m;
}

extern "C" ssize_t __wrap_read(int fd, void *b, size_t n) {
  Act a = next_act(SYS_READ, fd); ssize_t r;
  if (a.act == ACT_FAIL) { errno = (int)a.arg; r = -1; }
  else { size_t m = n; if (a.act == ACT_SHORT && (size_t)a.arg < m) m = (size_t)a.arg; r = (m == 0 && n != 0) ? 0 : __real_read(fd, b, m); if (m == 0 && n != 0) { errno = EAGAIN; r = -1; } }
  io_done(SYS_READ, fd, (long)n, (long)r); return r;
}
extern "C" ssize_t __wrap_readv(int fd, const struct iovec *v, int cnt) {
  Act a = next_act(SYS_READV, fd); ssize_t r; size_t tot = iov_total(v, cnt);
  if (a.act == ACT_FAIL) { errno = (int)a.arg; r = -1; }
  else if (a.act == ACT_SHORT && (size_t)a.arg < tot) {
    if (a.arg == 0) { errno = EAGAIN; r = -1; }
    else { struct iovec tmp[64]; int m = iov_trunc(v, cnt > 64 ? 64 : cnt, (size_t)a.arg, tmp); r = __real_readv(fd, tmp, m); }
  } else r = __real_readv(fd, v, cnt);
  io_done(SYS_READV, fd, (long)tot, (long)r); return r;
}
extern "C" ssize_t __wrap_write(int fd, const void *b, size_t n) {
  Act a = next_act(SYS_WRITE, fd); ssize_t r;
  if (a.act == ACT_FAIL) { errno = (int)a.arg; r = -1; }
  else { size_t m = n; if (a.act == ACT_SHORT && (size_t)a.arg < m) m = (size_t)a.arg;
    if (m == 0 && n != 0) { errno = EAGAIN; r = -1; } else r = __real_write(fd, b, m); }
  io_done(SYS_WRITE, fd, (long)n, (long)r); return r;
}
extern "C" ssize_t __wrap_writev(int fd, const struct iovec *v, int cnt) {
  Act a = next_act(SYS_WRITEV, fd); ssize_t r; size_t tot = iov_total(v, cnt);
  if (a.act == ACT_FAIL) { errno = (int)a.arg; r = -1; }
  else if (a.act == ACT_SHORT && (size_t)a.arg < tot) {
    if (a.arg == 0) { errno = EAGAIN; r = -1; }
    else { struct iovec tmp[256]; int m = iov_trunc(v, cnt > 256 ? 256 : cnt, (size_t)a.arg, tmp); r = __real_writev(fd, tmp, m); }
  } else r = __real_writev(fd, v, cnt);
  io_done(SYS_WRITEV, fd, (long)tot, (long)r); return r;
}
extern "C" ssize_t __wrap_sendfile(int out, int in, off_t *off, size_t n) {
  Act a = next_act(SYS_SENDFILE, out); ssize_t r;
  if (a.act == ACT_FAIL) { errno = (int)a.arg; r = -1; }
  else { size_t m = n; if (a.act == ACT_SHORT && (size_t)a.arg < m) m = (size_t)a.arg;
    if (m == 0 && n != 0) { errno = EAGAIN; r = -1; } else r = __real_sendfile(out, in, off, m); }
  io_done(SYS_SENDFILE, out, (long)n, (long)r); return r;
}
extern "C" int __wrap_accept4(int fd, struct sockaddr *sa, socklen_t *sl, int fl) {
  Act a = next_act(SYS_ACCEPT, fd); int r;
  if (a.act == ACT_FAIL) { errno = (int)a.arg; r = -1; } else r = __real_accept4(fd, sa, sl, fl);
  io_done(SYS_ACCEPT, fd, 0, r); return r;
}
extern "C" int __wrap_accept(int fd, struct sockaddr *sa, socklen_t *sl) {
  Act a = next_act(SYS_ACCEPT, fd); int r;
  if (a.act == ACT_FAIL) { errno = (int)a.arg; r = -1; } else r = __real_accept(fd, sa, sl);
  io_done(SYS_ACCEPT, fd, 0, r); return r;
}
extern "C" int __wrap_epoll_ctl(int ep, int op, int fd, struct epoll_event *ev) {
  Act a = next_act(SYS_EPOLL_CTL, fd); int r;
  // arg | SIM_NOT_ON_DEL: the failure applies to ADD/MOD only (a kernel never fails a DEL with ENOMEM/ENOSPC/EEXIST)
  if (a.act == ACT_FAIL && !((a.arg & SIM_NOT_ON_DEL) && op == EPOLL_CTL_DEL)) { errno = (int)(a.arg & 0xffff); r = -1; } else r = __real_epoll_ctl(ep, op, fd, ev);
  if (g_io_hook) { int e = errno; struct sim_io_rec rec{SYS_EPOLL_CTL, fd, (long)op | ((long)(ev ? ev->events : 0) << 8), r, r < 0 ? e : 0}; g_io_hook(&rec, g_io_arg); errno = e; }
  return r;
}
extern "C" ssize_t __wrap_recvfrom(int fd, void *b, size_t n, int fl, struct sockaddr *sa, socklen_t *sl) {
  Act a = next_act(SYS_RECVFROM, fd); ssize_t r;
  if (a.act == ACT_FAIL) { errno = (int)a.arg; r = -1; } else r = __real_recvfrom(fd, b, n, fl, sa, sl);
  io_done(SYS_RECVFROM, fd, (long)n, (long)r); return r;
}
extern "C" ssize_t __wrap_sendto(int fd, const void *b, size_t n, int fl, const struct sockaddr *sa, socklen_t sl) {
  Act a = next_act(SYS_SENDTO, fd); ssize_t r;
  if (a.act == ACT_FAIL) { errno = (int)a.arg; r = -1; } else r = __real_sendto(fd, b, n, fl, sa, sl);
  io_done(SYS_SENDTO, fd, (long)n, (long)r); return r;
}
extern "C" ssize_t __wrap_send(int fd, const void *b, size_t n, int fl) {
  Act a = next_act(SYS_SEND, fd); ssize_t r;
  if (a.act == ACT_FAIL) { errno = (int)a.arg; r = -1; }
  else { size_t m = n; if (a.act == ACT_SHORT && (size_t)a.arg < m) m = (size_t)a.arg;
    if (m == 0 && n != 0) { errno = EAGAIN; r = -1; } else r = __real_send(fd, b, m, fl); }
  io_done(SYS_SEND, fd, (long)n, (long)r); return r;
}
extern "C" ssize_t __wrap_recv(int fd, void *b, size_t n, int fl) {
  Act a = next_act(SYS_RECV, fd); ssize_t r;
  if (a.act == ACT_FAIL) { errno = (int)a.arg; r = -1; }
  else { size_t m = n; if (a.act == ACT_SHORT && (size_t)a.arg < m) m = (size_t)a.arg;
    if (m == 0 && n != 0) { errno = EAGAIN; r = -1; } else r = __real_recv(fd, b, m, fl); }
  io_done(SYS_RECV, fd, (long)n, (long)r); return r;
}
extern "C" int __wrap_socket(int d, int t, int p) {
  Act a = next_act(SYS_SOCKET, -1); if (a.act == ACT_FAIL) { errno = (int)a.arg; return -1; } return __real_socket(d, t, p);
}
extern "C" int __wrap_eventfd(unsigned int c, int f) {
  Act a = next_act(SYS_EVENTFD, -1); if (a.act == ACT_FAIL) { errno = (int)a.arg; return -1; } return __real_eventfd(c, f);
}
extern "C" int __wrap_pipe2(int p[2], int f) {
  Act a = next_act(SYS_PIPE, -1); if (a.act == ACT_FAIL) { errno = (int)a.arg; return -1; } return __real_pipe2(p, f);
}
extern "C" int __wrap_pipe(int p[2]) {
  Act a = next_act(SYS_PIPE, -1); if (a.act == ACT_FAIL) { errno = (int)a.arg; return -1; } return __real_pipe(p);
}
extern "C" int __wrap_connect(int fd, const struct sockaddr *sa, socklen_t sl) {
  Act a = next_act(SYS_CONNECT, fd); if (a.act == ACT_FAIL) { errno = (int)a.arg; return -1; } return __real_connect(fd, sa, sl);
}
extern "C" int __wrap_sigaction(int sig, const struct sigaction *sa, struct sigaction *old) {
  Act a = next_act(SYS_SIGACTION, sig); if (a.act == ACT_FAIL) { errno = (int)a.arg; return -1; }
  int r = __real_sigaction(sig, sa, old);
  if (g_io_hook) { int e = errno; struct sim_io_rec rec{SYS_SIGACTION, sig, sa ? 1 : 0, r, r < 0 ? e : 0}; g_io_hook(&rec, g_io_arg); errno = e; }
  return r;
}
extern "C" int __wrap_signalfd(int fd, const sigset_t *m, int fl) {
  Act a = next_act(SYS_SIGNALFD, fd); if (a.act == ACT_FAIL) { errno = (int)a.arg; return -1; } return __real_signalfd(fd, m, fl);
}

// =============================================================== allocator
int64_t sim_mem_live_blocks, sim_mem_live_bytes;
uint64_t sim_mem_calls, sim_mem_failed;
static uint64_t g_fail_at; static int g_fail_sticky;
struct MHdr { uint64_t magic; uint64_t size; };
#define MAGIC 0x5ca1ab1e0ddba11ull

static bool should_fail() {
  sim_mem_calls++;
  if (!g_fail_at) return false;
  if (sim_mem_calls == g_fail_at || (g_fail_sticky && sim_mem_calls > g_fail_at)) { sim_mem_failed++; if (!g_fail_sticky) g_fail_at = 0; return true; }
  return false;
}
static void *m_malloc(size_t sz) {
  if (should_fail()) { errno = ENOMEM; return NULL; }
  MHdr *h = (MHdr *)malloc(sizeof(MHdr) + sz); if (!h) return NULL;
  h->magic = MAGIC; h->size = sz; sim_mem_live_blocks++; sim_mem_live_bytes += (int64_t)sz; return h + 1;
}
static void m_free(void *p) {
  if (!p) return; MHdr *h = (MHdr *)p - 1;
  if (h->magic != MAGIC) verif_fail("mem/free-of-foreign-block", "free(%p) of a block not allocated through the library allocator", p);
  h->magic = 0; sim_mem_live_blocks--; sim_mem_live_bytes -= (int64_t)h->size; free(h);
}
static void *m_realloc(void *p, size_t sz) {
  if (!p) return m_malloc(sz);
  if (sz == 0) { m_free(p); return NULL; }
  MHdr *h = (MHdr *)p - 1;
  if (h->magic != MAGIC) verif_fail("mem/realloc-of-foreign-block", "realloc(%p)", p);
  if (should_fail()) { errno = ENOMEM; return NULL; }
  // always move: a stale pointer into the old block becomes an ASan-visible use-after-free
  MHdr *n = (MHdr *)malloc(sizeof(MHdr) + sz); if (!n) return NULL;
  n->magic = MAGIC; n->size = sz; memcpy(n + 1, p, h->size < sz ? h->size : sz);
  sim_mem_live_bytes += (int64_t)sz - (int64_t)h->size; h->magic = 0; free(h); return n + 1;
}
extern "C" void sim_mem_install(void) { static int done; if (done) return; done = 1; event_set_mem_functions(m_malloc, m_realloc, m_free); }
extern "C" void sim_mem_free(void *p) { static int inst; (void)inst; m_free(p); }
extern "C" void sim_mem_fail_at(uint64_t nth, int sticky) { g_fail_at = nth ? sim_mem_calls + nth : 0; g_fail_sticky = sticky; }

// =============================================================== lock monitor
struct MLock { unsigned locktype; int count; int id; bool freed; };
static int g_lock_ids; static int g_held_total;
static const char *g_lock_err; static char g_lock_errbuf[160];
uint64_t sim_lock_ops;
static std::map<int, MLock *> g_held;
static void lock_err(const char *what, MLock *l) {
  if (g_lock_err) return;
  snprintf(g_lock_errbuf, sizeof g_lock_errbuf, "%s (lock #%d, %s, count=%d)", what, l ? l->id : -1,
           l && (l->locktype & EVTHREAD_LOCKTYPE_RECURSIVE) ? "recursive" : "plain", l ? l->count : 0);
  g_lock_err = g_lock_errbuf;
}
static void *ml_alloc(unsigned locktype) { MLock *l = new MLock{locktype, 0, ++g_lock_ids, false}; return l; }
static void ml_free(void *p, unsigned) { MLock *l = (MLock *)p; if (l->count) { lock_err("free of a held lock", l); g_held_total -= l->count; g_held.erase(l->id); } delete l; }
static int g_try_fail; uint64_t sim_try_failed;
extern "C" void sim_lockmon_fail_try(int n) { g_try_fail = n; }
static int ml_lock(unsigned mode, void *p) {
  MLock *l = (MLock *)p; sim_lock_ops++;
  // injected: the lock is "held by another thread", so a try-lock fails without acquiring anything
  if ((mode & EVTHREAD_TRY) && g_try_fail > 0) { g_try_fail--; sim_try_failed++; return 1; }
  if (l->count > 0 && !(l->locktype & EVTHREAD_LOCKTYPE_RECURSIVE)) {
    if (mode & EVTHREAD_TRY) return 1;
    lock_err("second acquire of a non-recursive lock (self-deadlock)", l);
  }
  l->count++; g_held_total++; g_held[l->id] = l; return 0;
}
static int ml_unlock(unsigned, void *p) {
  MLock *l = (MLock *)p; sim_lock_ops++;
  if (l->count <= 0) { lock_err("unlock of a lock that is not held", l); return 0; }
  l->count--; g_held_total--; if (!l->count) g_held.erase(l->id); return 0;
}
static void *mc_alloc(unsigned) { return new int(0); }
static void mc_free(void *p) { delete (int *)p; }
static int mc_signal(void *, int) { return 0; }
static int mc_wait(void *, void *lk, const struct timeval *) {
  lock_err("condition wait in a single-threaded run (would block forever)", (MLock *)lk); return 0; }
static unsigned long m_id(void) { return 1; }
extern "C" void sim_lockmon_install(void) {
  static int done; if (done) return; done = 1;
  struct evthread_lock_callbacks cbs = {EVTHREAD_LOCK_API_VERSION, EVTHREAD_LOCKTYPE_RECURSIVE, ml_alloc, ml_free, ml_lock, ml_unlock};
  struct evthread_condition_callbacks cc = {EVTHREAD_CONDITION_API_VERSION, mc_alloc, mc_free, mc_signal, mc_wait};
  evthread_set_lock_callbacks(&cbs); evthread_set_condition_callbacks(&cc); evthread_set_id_callback(m_id);
}
extern "C" int sim_lockmon_held(const char **desc) {
  static char buf[96];
  if (g_held_total && desc) { MLock *l = g_held.empty() ? NULL : g_held.begin()->second;
    snprintf(buf, sizeof buf, "lock #%d (%s) count=%d", l ? l->id : -1, l && (l->locktype & EVTHREAD_LOCKTYPE_RECURSIVE) ? "recursive" : "plain", l ? l->count : 0); *desc = buf; }
  return g_held_total;
}
extern "C" const char *sim_lockmon_error(void) { return g_lock_err; }

// =============================================================== fd ledger
// one getdents pass over /proc/self/fd instead of 1024 fcntl() probes
#include <dirent.h>
static void fd_scan(struct sim_fdset *s, int *count) {
  if (s) memset(s, 0, sizeof *s);
  int n = 0;
  DIR *d = opendir("/proc/self/fd");
  if (!d) { for (int fd = 0; fd < 1024; fd++) if (fcntl(fd, F_GETFD) != -1) { n++; if (s) s->open[fd >> 3] |= 1 << (fd & 7); } if (count) *count = n; return; }
  int self = dirfd(d);
  while (struct dirent *e = readdir(d)) {
    if (e->d_name[0] < '0' || e->d_name[0] > '9') continue;
    int fd = atoi(e->d_name);
    if (fd == self || fd < 0 || fd >= 1024) continue;
    n++; if (s) s->open[fd >> 3] |= 1 << (fd & 7);
  }
  closedir(d);
  if (count) *count = n;
}
extern "C" int sim_fd_count(void) { int n; fd_scan(nullptr, &n); return n; }
extern "C" void sim_fd_snapshot(struct sim_fdset *s) { fd_scan(s, nullptr); }
extern "C" int sim_fd_diff(const struct sim_fdset *a, const struct sim_fdset *b) {
  for (int fd = 0; fd < 1024; fd++) if ((a->open[fd >> 3] ^ b->open[fd >> 3]) & (1 << (fd & 7))) return fd; return -1; }

// =============================================================== reset
extern "C" void sim_reset(void) {
  g_clock_on = 0; g_now_us = 0; g_wait_hook = NULL; g_wait_arg = NULL; sim_wait_count = sim_idle_count = 0; g_wait_limit = 200000;
  sim_script_clear(); memset(sim_sys_calls, 0, sizeof sim_sys_calls); memset(sim_sys_faults, 0, sizeof sim_sys_faults);
  g_io_hook = NULL; g_io_arg = NULL;
  sim_mem_calls = 0; sim_mem_failed = 0; g_fail_at = 0; g_fail_sticky = 0;
  sim_lock_ops = 0; g_lock_err = NULL;
}
