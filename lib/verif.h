// Common harness layer: choice source (Src), statistics, failure reporting.
// Every target is `extern "C" int LLVMFuzzerTestOneInput(const uint8_t*, size_t)` and draws
// ALL its decisions from a Src over the input bytes, so a case is a pure function of its bytes.
#pragma once
#include <stdint.h>
#include <stddef.h>
#include <stdarg.h>
#include <stdio.h>
#include <stdlib.h>
#include <string.h>
#include <string>
#include <vector>

// ---------------------------------------------------------------- statistics / failure (support.cc)
extern "C" {
extern int verif_trace_on;                 // 1 while the current case is being traced
void verif_case_begin(const char *property);              // call first in every case
void verif_class(const char *name);                       // bump a named counter (generator distribution)
void verif_class_n(const char *name, uint64_t n);
void verif_case_end(int nontrivial, uint64_t case_hash);  // call last; records distinct hash + maybe a sample
void verif_tracef(const char *fmt, ...) __attribute__((format(printf, 1, 2)));
void verif_fail(const char *key, const char *fmt, ...) __attribute__((format(printf, 2, 3), noreturn));
int  verif_known(const char *key);         // key listed in $VERIF_KNOWN (known finding excluded by construction)?
void verif_known_skipped(const char *key); // count one generated case narrowed because of a known finding
void verif_stats_flush(void);
long verif_param(const char *name, long dflt); // integer parameter from env VERIF_P_<name>
}
#define TR(...) do { if (verif_trace_on) verif_tracef(__VA_ARGS__); } while (0)
#define VERIF_FAIL(key, ...) verif_fail(key, __VA_ARGS__)
#define CHECK(cond, key, ...) do { if (!(cond)) verif_fail(key, __VA_ARGS__); } while (0)

// ---------------------------------------------------------------- choice source
struct Src {
  const uint8_t *p; size_t n, i; uint64_t h;
  Src(const uint8_t *d, size_t len) : p(d), n(len), i(0), h(0xcbf29ce484222325ull) {}
  bool exhausted() const { return i >= n; }
  size_t left() const { return n - i; }
  void mix(uint64_t v) { h ^= v + 0x9e3779b97f4a7c15ull + (h << 6) + (h >> 2); h *= 0x100000001b3ull; }
  uint8_t raw() { return i < n ? p[i++] : 0; }
  uint8_t byte() { uint8_t v = raw(); mix(v); return v; }
  // uniform-ish in [0,k); 0 when bytes are exhausted
  uint32_t below(uint32_t k) {
    if (k <= 1) return 0;
    uint32_t v;
    if (k <= 256) v = raw() % k;
    else if (k <= 65536) { v = raw(); v |= (uint32_t)raw() << 8; v %= k; }
    else { v = raw(); v |= (uint32_t)raw() << 8; v |= (uint32_t)raw() << 16; v |= (uint32_t)raw() << 24; v %= k; }
    mix(v); return v;
  }
  int64_t range(int64_t lo, int64_t hi) {      // inclusive
    if (hi <= lo) return lo;
    uint64_t span = (uint64_t)(hi - lo) + 1;
    if (span == 0 || span > 0xffffffffull) { uint64_t v = u64raw(); if (span) v %= span; mix(v); return lo + (int64_t)v; }
    return lo + (int64_t)below((uint32_t)span) ;
  }
  bool flag() { return below(2) != 0; }
  bool chance(uint32_t num, uint32_t den) { return below(den) < num; }
  uint64_t u64raw() { uint64_t v = 0; for (int k = 0; k < 8; k++) v |= (uint64_t)raw() << (8 * k); return v; }
  uint64_t u64() { uint64_t v = u64raw(); mix(v); return v; }
  uint32_t u32() { uint32_t v = 0; for (int k = 0; k < 4; k++) v |= (uint32_t)raw() << (8 * k); mix(v); return v; }
  uint16_t u16() { uint16_t v = raw(); v |= (uint16_t)raw() << 8; mix(v); return v; }
  // half the mass on boundary values of a w-bit unsigned quantity
  uint64_t boundary(unsigned bits) {
    uint64_t max = bits >= 64 ? ~0ull : ((1ull << bits) - 1);
    uint32_t sel = below(16);
    uint64_t v;
    switch (sel) {
      case 0: v = 0; break; case 1: v = 1; break; case 2: v = max; break; case 3: v = max - 1; break;
      case 4: v = max >> 1; break; case 5: v = (max >> 1) + 1; break;
      case 6: { unsigned s = below(bits); v = 1ull << s; break; }
      case 7: { unsigned s = below(bits); v = (1ull << s) - 1; break; }
      case 8: { unsigned s = below(bits); v = (1ull << s) + 1; break; }
      case 9: v = below(256); break;
      case 10: v = below(65536); break;
      default: v = u64raw(); break;
    }
    v &= max; mix(v); return v;
  }
  // pick one of a small list
  template <class T, size_t N> T pick(const T (&arr)[N]) { return arr[below(N)]; }
  std::string bytes(size_t len) { std::string s; s.reserve(len); for (size_t k = 0; k < len; k++) s.push_back((char)byte()); return s; }
  // string over a small alphabet
  std::string from(const char *alphabet, size_t alen, size_t len) {
    std::string s; s.reserve(len); for (size_t k = 0; k < len; k++) s.push_back(alphabet[below((uint32_t)alen)]); return s; }
};

static inline std::string hexs(const void *d, size_t n, size_t cap = 96) {
  static const char *H = "0123456789abcdef"; std::string s; const uint8_t *p = (const uint8_t *)d;
  for (size_t i = 0; i < n && i < cap; i++) { s.push_back(H[p[i] >> 4]); s.push_back(H[p[i] & 15]); }
  if (n > cap) s += "..(" + std::to_string(n) + ")"; return s; }
// printable rendering with escapes
static inline std::string esc(const std::string &in, size_t cap = 200) {
  std::string s; char b[8];
  for (size_t i = 0; i < in.size() && i < cap; i++) { unsigned char c = in[i];
    if (c == '\\') s += "\\\\"; else if (c == '\r') s += "\\r"; else if (c == '\n') s += "\\n";
    else if (c >= 0x20 && c < 0x7f) s.push_back(c); else { snprintf(b, sizeof b, "\\x%02x", c); s += b; } }
  if (in.size() > cap) s += "..(" + std::to_string(in.size()) + ")"; return s; }
