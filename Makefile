# Build machinery for the libevent property checks.
#   make setup            configure step (event-config.h) + library + all targets
#   make T=<target>       build/t/<target>.fuzz (+ .rnd) from $(VERIF_REPO)'s working tree
# Everything lands in build/ ; nothing here touches /repo.

VERIF_REPO ?= /repo
REPO := $(VERIF_REPO)
V := $(CURDIR)
ifeq ($(REPO),/repo)
B := build
else
B := build/alt-$(shell echo $(REPO) | cksum | cut -d' ' -f1)
endif
CFG := build/cfg/include
GUARD := LIBEVENT_VERIF_HOOKS

CC  := clang
CXX := clang++
SAN := -fsanitize=address,undefined -fno-sanitize-recover=undefined
COMMON := -g -O1 -fno-omit-frame-pointer $(SAN)
LIBDEFS := -DHAVE_CONFIG_H -D_GNU_SOURCE -D$(GUARD)=1
INCS := -I$(CFG) -I$(REPO)/include -I$(REPO)/compat -I$(REPO)
LIBCFLAGS := $(COMMON) -fsanitize=fuzzer-no-link $(LIBDEFS) $(INCS) -fno-strict-aliasing -w
TCXXFLAGS := -std=gnu++17 $(COMMON) -fsanitize=fuzzer-no-link $(LIBDEFS) $(INCS) -I$(V)/lib -I$(V)/sim -I$(V)/refs -Wall -Wno-unused-function -Wno-unused-variable

LIBSRC := buffer bufferevent bufferevent_filter bufferevent_pair bufferevent_ratelim \
  bufferevent_sock event evmap evthread evutil evutil_rand evutil_time watch listener log \
  signal strlcpy select poll epoll signalfd event_tagging http evdns evrpc sha1 ws \
  evthread_pthread bufferevent_openssl bufferevent_ssl bufferevent_mbedtls
LIBOBJ := $(LIBSRC:%=$(B)/asan/%.o)

# functions replaced at link time (pass-through unless a target arms them; see sim/sim.h)
WRAPS := clock_gettime gettimeofday epoll_pwait2 epoll_wait poll select \
  read readv write writev sendfile accept4 accept epoll_ctl recvfrom sendto send recv \
  socket eventfd pipe2 pipe connect sigaction signalfd
comma := ,
empty :=
space := $(empty) $(empty)
WRAPFLAGS := -Wl,$(subst $(space),$(comma),$(WRAPS:%=--wrap=%))

SIMOBJ := $(B)/sim/sim.o $(B)/sim/vsched.o
SUPOBJ := $(B)/sim/support.o
LDLIBS := -lssl -lcrypto -lmbedtls -lmbedx509 -lmbedcrypto -lpthread

TARGETS := $(patsubst props/%.cc,%,$(wildcard props/*.cc))

.PHONY: setup all lib clean cfg
all: lib $(TARGETS:%=$(B)/t/%.fuzz)
setup: cfg all
lib: $(B)/asan/libevent_all.a

cfg: $(CFG)/event2/event-config.h
$(CFG)/event2/event-config.h: $(REPO)/event-config.h.cmake $(REPO)/evconfig-private.h.cmake $(REPO)/CMakeLists.txt
	@mkdir -p build
	@echo "[cfg] cmake configure (headers only)"
	@cmake -S $(REPO) -B build/cfg -G Ninja -DEVENT__DISABLE_TESTS=ON -DEVENT__DISABLE_SAMPLES=ON \
	  -DEVENT__DISABLE_BENCHMARK=ON -DEVENT__DISABLE_REGRESS=ON -DEVENT__LIBRARY_TYPE=STATIC \
	  > build/cfg.log 2>&1 || { \
	    echo "[cfg] cmake failed, falling back to $(REPO)/_build/include"; \
	    mkdir -p $(CFG)/event2 && cp $(REPO)/_build/include/evconfig-private.h $(CFG)/ && \
	    cp $(REPO)/_build/include/event2/event-config.h $(CFG)/event2/; }
	@touch $@

$(B)/asan/sha1.o: EXTRA := -DLITTLE_ENDIAN=1
$(B)/asan/%.o: $(REPO)/%.c $(CFG)/event2/event-config.h
	@mkdir -p $(dir $@)
	@echo "[cc] $<"; $(CC) $(LIBCFLAGS) $(EXTRA) -MMD -MP -c $< -o $@

$(B)/asan/libevent_all.a: $(LIBOBJ)
	@rm -f $@
	@ar rcs $@ $(LIBOBJ)

$(B)/sim/%.o: sim/%.cc sim/sim.h sim/vsched.h lib/verif.h $(CFG)/event2/event-config.h
	@mkdir -p $(dir $@)
	@echo "[cxx] $<"; $(CXX) $(TCXXFLAGS) -MMD -MP -c $< -o $@

# regress.rpc -> generated marshalling code for C43
$(B)/gen/regress.gen.c: $(REPO)/test/regress.rpc $(REPO)/event_rpcgen.py
	@mkdir -p $(B)/gen
	cd $(B)/gen && python3 $(REPO)/event_rpcgen.py --quiet $(REPO)/test/regress.rpc regress.gen.h regress.gen.c
$(B)/gen/regress.gen.o: $(B)/gen/regress.gen.c
	$(CC) $(LIBCFLAGS) -I$(B)/gen -c $< -o $@

$(B)/t/%.o: props/%.cc lib/verif.h sim/sim.h $(CFG)/event2/event-config.h
	@mkdir -p $(dir $@)
	@echo "[cxx] $<"; $(CXX) $(TCXXFLAGS) -I$(B)/gen -DVERIF_REPO_DIR='"$(REPO)"' -MMD -MP -c $< -o $@

$(B)/t/rpc_world.o: $(B)/gen/regress.gen.c
$(B)/t/rpc_world.fuzz: EXTRAOBJ := $(B)/gen/regress.gen.o
$(B)/t/rpc_world.fuzz: $(B)/gen/regress.gen.o

$(B)/t/%.fuzz: $(B)/t/%.o $(SIMOBJ) $(SUPOBJ) $(B)/asan/libevent_all.a
	@echo "[ld] $@"; $(CXX) $(COMMON) -fsanitize=fuzzer $< $(EXTRAOBJ) $(SIMOBJ) $(SUPOBJ) $(B)/asan/libevent_all.a $(WRAPFLAGS) $(LDLIBS) -o $@

# ---- ThreadSanitizer variant (C09 leg B): library + targets under props_tsan/, no sim layer, real clock and threads.
# No coverage instrumentation here: libFuzzer's inline 8-bit counters are themselves racy under TSan; libFuzzer only
# serves as the (seeded) generator and artifact writer for this leg.
TSANFLAGS := -g -O1 -fno-omit-frame-pointer -fsanitize=thread
LIBOBJ_TSAN := $(LIBSRC:%=$(B)/tsan/%.o)
$(B)/tsan/sha1.o: EXTRA := -DLITTLE_ENDIAN=1
$(B)/tsan/%.o: $(REPO)/%.c $(CFG)/event2/event-config.h
	@mkdir -p $(dir $@)
	@echo "[cc-tsan] $<"; $(CC) $(TSANFLAGS) $(LIBDEFS) $(INCS) -fno-strict-aliasing -w $(EXTRA) -MMD -MP -c $< -o $@
$(B)/tsan/libevent_all.a: $(LIBOBJ_TSAN)
	@rm -f $@
	@ar rcs $@ $(LIBOBJ_TSAN)
$(B)/tsan/support.o: sim/support.cc lib/verif.h
	@mkdir -p $(dir $@)
	@echo "[cxx-tsan] $<"; $(CXX) -std=gnu++17 $(TSANFLAGS) $(LIBDEFS) $(INCS) -I$(V)/lib -I$(V)/sim -c $< -o $@
$(B)/t/%.tsan.o: props_tsan/%.cc lib/verif.h $(CFG)/event2/event-config.h
	@mkdir -p $(dir $@)
	@echo "[cxx-tsan] $<"; $(CXX) -std=gnu++17 $(TSANFLAGS) $(LIBDEFS) $(INCS) -I$(V)/lib -I$(V)/sim -I$(V)/refs -Wall -Wno-unused-function -MMD -MP -c $< -o $@
$(B)/tsan/covprobe.o: props_tsan/covprobe.inc
	@mkdir -p $(dir $@)
	$(CXX) -x c++ -g -O1 -fsanitize=fuzzer-no-link -c $< -o $@
$(B)/t/%.tsan: $(B)/t/%.tsan.o $(B)/tsan/support.o $(B)/tsan/covprobe.o $(B)/tsan/libevent_all.a
	@echo "[ld] $@"; $(CXX) $(TSANFLAGS) -fsanitize=fuzzer $< $(B)/tsan/support.o $(B)/tsan/covprobe.o $(B)/tsan/libevent_all.a $(LDLIBS) -o $@

# targets that #include a library .c file to reach static functions must see edits to it
$(B)/t/epoll_table.o: $(REPO)/epoll.c $(REPO)/epolltable-internal.h

.SECONDARY:
clean:
	rm -rf build

-include $(wildcard $(B)/tsan/*.d) $(wildcard $(B)/asan/*.d) $(wildcard $(B)/t/*.d) $(wildcard $(B)/sim/*.d)
