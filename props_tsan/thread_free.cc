// C09 leg B — free-running real threads under ThreadSanitizer (no simulation layer, real clock).
// A loop thread runs event_base_loop; two workers issue generated cross-thread calls with generated micro-pauses;
// the controller then asks the loop to exit.  Oracles: any ThreadSanitizer report (data race, lock-order inversion,
// unlock of an unlocked mutex) is a violation; when event_del / event_del_block returns in a worker the callback is
// not running and does not start again until that worker re-adds/activates the event; bytes written through a
// thread-safe bufferevent pair and records added to a locked evbuffer arrive intact.
// A wall-clock watchdog can only make a case INCONCLUSIVE (key harness/…), never a violation.
#include "verif.h"
#include <atomic>
#include <pthread.h>
#include <unistd.h>
#include <time.h>
#include <event2/event.h>
#include <event2/buffer.h>
#include <event2/bufferevent.h>
#include <event2/thread.h>

extern "C" unsigned verif_cov_probe(const uint8_t *, size_t);
namespace {
enum { NA = 2, ND = 2 };
enum OpK { O_END, O_ACTIVE_A, O_ADD_D, O_DEL_D, O_DELBLOCK_D, O_DELNOBLOCK_D, O_ACTIVE_D, O_BEV_WRITE, O_BUF_ADD, O_PAUSE, O__N };
struct Op { int k, i, n; };
struct World {
  struct event_base *base; struct event *A[NA], *D[ND], *K;
  std::atomic<int> in_cb[ND], deleted[ND], cbA[NA], cbD[ND], cb_pause_us;
  struct bufferevent *pa, *pb; std::string sent, recv; pthread_mutex_t recv_mu;
  struct evbuffer *shared; int added[3];
  std::vector<Op> script[3];
  std::atomic<int> loop_running, del_during_cb; int loop_ret;
};
World *W;

void spin_us(int us) { if (us <= 0) return; struct timespec ts = {0, us * 1000L}; nanosleep(&ts, nullptr); }
void a_cb(evutil_socket_t, short, void *arg) { W->cbA[(int)(intptr_t)arg]++; }
void d_cb(evutil_socket_t, short, void *arg) {
  int i = (int)(intptr_t)arg;
  CHECK(!W->deleted[i].load(), "C09/callback-after-del", "callback of D%d started after event_del returned in its owner thread", i);
  W->in_cb[i] = 1; W->cbD[i]++; spin_us(W->cb_pause_us.load()); W->in_cb[i] = 0;
}
void k_cb(evutil_socket_t, short, void *) {}
void pb_read(struct bufferevent *b, void *) { char tmp[512]; size_t n; pthread_mutex_lock(&W->recv_mu); while ((n = bufferevent_read(b, tmp, sizeof tmp)) > 0) W->recv.append(tmp, n); pthread_mutex_unlock(&W->recv_mu); }
void pb_event(struct bufferevent *, short, void *) {}

void *loop_thread(void *) { W->loop_running = 1; W->loop_ret = event_base_loop(W->base, 0); W->loop_running = 2; return nullptr; }
void *worker(void *arg) {
  int me = (int)(intptr_t)arg; World &w = *W; int d = me - 1; char rec[16];
  for (auto &op : w.script[me]) {
    switch (op.k) {
      case O_ACTIVE_A: event_active(w.A[op.i], EV_READ, 1); break;
      case O_ADD_D: { struct timeval tv = {0, 200 * (1 + op.n % 20)}; w.deleted[d] = 0; if (event_add(w.D[d], &tv)) verif_fail("C09/add-failed", "event_add failed"); break; }
      case O_DEL_D: case O_DELBLOCK_D: {
        if (w.in_cb[d].load()) w.del_during_cb++;
        int r = op.k == O_DEL_D ? event_del(w.D[d]) : event_del_block(w.D[d]);
        CHECK(r == 0, "C09/del-failed", "event_del=%d", r);
        CHECK(!w.in_cb[d].load(), "C09/del-returned-while-callback-running", "event_del(D%d) returned in worker %d while the callback is still running in the loop thread", d, me);
        w.deleted[d] = 1; break; }
      case O_DELNOBLOCK_D: event_del_noblock(w.D[d]); break;
      case O_ACTIVE_D: w.deleted[d] = 0; event_active(w.D[d], EV_WRITE, 1); break;
      case O_BEV_WRITE: if (me == 1) { std::string chunk; for (int k = 0; k < op.n; k++) chunk.push_back((char)('a' + (w.sent.size() + k) % 23)); w.sent += chunk; if (bufferevent_write(w.pa, chunk.data(), chunk.size())) verif_fail("C09/bev-write-failed", "bufferevent_write failed"); } break;
      case O_BUF_ADD: snprintf(rec, sizeof rec, "W%d%06d\n", me, w.added[me]++); evbuffer_add(w.shared, rec, 9); break;
      case O_PAUSE: spin_us(op.n % 300); break;
    }
  }
  return nullptr;
}
}  // namespace

extern "C" int LLVMFuzzerInitialize(int *, char ***) { evthread_use_pthreads(); event_set_log_callback([](int, const char *) {}); return 0; }

extern "C" int LLVMFuzzerTestOneInput(const uint8_t *data, size_t size) {
  verif_case_begin("C09");
  (void)verif_cov_probe(data, size);
  Src s(data, size);
  World w; W = &w;
  for (int i = 0; i < ND; i++) { w.in_cb[i] = 0; w.deleted[i] = 0; w.cbD[i] = 0; } for (int i = 0; i < NA; i++) w.cbA[i] = 0;
  w.added[0] = w.added[1] = w.added[2] = 0; w.loop_running = 0; w.del_during_cb = 0; w.loop_ret = -2; pthread_mutex_init(&w.recv_mu, nullptr);
  for (int t = 1; t <= 2; t++) { int n = 1 + s.below(12); for (int k = 0; k < n; k++) { Op o; o.k = 1 + s.below(O__N - 1); o.i = s.below(NA); o.n = 1 + s.below(250); w.script[t].push_back(o); } }
  w.cb_pause_us = s.below(200);
  bool use_break = s.chance(1, 4);
  int bevopt = BEV_OPT_THREADSAFE | (s.flag() ? BEV_OPT_DEFER_CALLBACKS : 0);
  struct event_config *cfg = event_config_new();
  // epoll variants only (see props/C09.json: poll/select never drain the wake-up eventfd in this tree)
  if (s.flag()) event_config_set_flag(cfg, EVENT_BASE_FLAG_EPOLL_USE_CHANGELIST);
  w.base = event_base_new_with_config(cfg); event_config_free(cfg);
  for (int t = 1; t <= 2; t++) { std::string d; for (auto &o : w.script[t]) { char b[32]; snprintf(b, sizeof b, " %d/%d/%d", o.k, o.i, o.n); d += b; } TR("W%d script:%s", t, d.c_str()); }
  TR("backend=%s break=%d bevopt=0x%x cb_pause=%dus", event_base_get_method(w.base), use_break, bevopt, w.cb_pause_us.load());
  for (int i = 0; i < NA; i++) w.A[i] = event_new(w.base, -1, 0, a_cb, (void *)(intptr_t)i);
  for (int i = 0; i < ND; i++) w.D[i] = event_new(w.base, -1, EV_PERSIST, d_cb, (void *)(intptr_t)i);
  w.K = event_new(w.base, -1, EV_PERSIST, k_cb, nullptr); { struct timeval far = {3600, 0}; event_add(w.K, &far); }
  struct bufferevent *pr[2]; if (bufferevent_pair_new(w.base, bevopt, pr)) abort(); w.pa = pr[0]; w.pb = pr[1];
  bufferevent_setcb(w.pb, pb_read, nullptr, pb_event, nullptr); bufferevent_enable(w.pb, EV_READ); bufferevent_enable(w.pa, EV_WRITE);
  w.shared = evbuffer_new(); evbuffer_enable_locking(w.shared, nullptr);

  pthread_t tl, t1, t2;
  pthread_create(&tl, nullptr, loop_thread, nullptr);
  pthread_create(&t1, nullptr, worker, (void *)(intptr_t)1); pthread_create(&t2, nullptr, worker, (void *)(intptr_t)2);
  pthread_join(t1, nullptr); pthread_join(t2, nullptr);
  // loopbreak/loopexit are only claimed for a running loop
  for (int g = 0; w.loop_running.load() == 0 && g < 200000; g++) spin_us(50);
  if (w.loop_running.load() == 0) verif_fail("harness/tsan-loop-never-started", "loop thread did not start within 10 s");
  if (use_break) event_base_loopbreak(w.base); else event_base_loopexit(w.base, nullptr);
  for (int g = 0; w.loop_running.load() != 2 && g < 400000; g++) spin_us(50);
  if (w.loop_running.load() != 2) verif_fail("harness/tsan-watchdog", "loop did not return within 20 s of loopexit/loopbreak (inconclusive: wall clock)");
  pthread_join(tl, nullptr);
  CHECK(w.loop_ret == 0, "C09/loop-return", "event_base_loop returned %d", w.loop_ret);
  // single-threaded from here on
  for (int i = 0; i < ND; i++) event_del(w.D[i]);
  for (int k = 0; k < 4; k++) event_base_loop(w.base, EVLOOP_NONBLOCK);
  CHECK(w.recv == w.sent, "C09/bev-stream-corrupt", "bytes read from the pair (%zu) differ from bytes written by the worker (%zu)", w.recv.size(), w.sent.size());
  { int seen[3] = {0, 0, 0}; size_t n; char *line;
    while ((line = evbuffer_readln(w.shared, &n, EVBUFFER_EOL_LF))) { int id = line[1] - '0'; bool ok = n == 8 && line[0] == 'W' && (id == 1 || id == 2) && atoi(line + 2) == seen[id]; std::string l(line, n); free(line);
      CHECK(ok, "C09/evbuffer-record-torn", "record \"%s\" out of sequence or torn", esc(l).c_str()); seen[id]++; }
    CHECK(seen[1] == w.added[1] && seen[2] == w.added[2], "C09/evbuffer-records-lost", "records %d/%d, expected %d/%d", seen[1], seen[2], w.added[1], w.added[2]); }
  TR("callbacks A=%d/%d D=%d/%d del_during_cb=%d", w.cbA[0].load(), w.cbA[1].load(), w.cbD[0].load(), w.cbD[1].load(), w.del_during_cb.load());
  bufferevent_free(w.pa); bufferevent_free(w.pb); evbuffer_free(w.shared);
  for (auto *e : w.A) event_free(e); for (auto *e : w.D) event_free(e); event_free(w.K);
  event_base_loop(w.base, EVLOOP_NONBLOCK);
  event_base_free(w.base);
  pthread_mutex_destroy(&w.recv_mu);
  if (w.del_during_cb.load()) verif_class("del_while_callback_running");
  int ncb = w.cbA[0] + w.cbA[1] + w.cbD[0] + w.cbD[1];
  verif_case_end(ncb > 0 && w.script[1].size() + w.script[2].size() >= 3, s.h);
  W = nullptr;
  return 0;
}
